"""A concrete BaseTcpTunnelHandler, mirroring /repo/examples/https_connect_tunnel.py
(the example module itself is not importable as a package member)."""
from typing import Any, Optional


def tunnel_flags(**opts: Any) -> Any:
    from proxy.core.base import BaseTcpTunnelHandler
    from proxy.http.responses import (
        PROXY_TUNNEL_ESTABLISHED_RESPONSE_PKT, PROXY_TUNNEL_UNSUPPORTED_SCHEME,
    )
    from .harness import make_flags

    class HttpsConnectTunnelHandler(BaseTcpTunnelHandler):   # type: ignore[misc]
        def handle_data(self, data: memoryview) -> Optional[bool]:
            if self.upstream and self.upstream._conn is not None:
                self.upstream.queue(data)
                return None
            self.request.parse(data)
            if not self.request.is_https_tunnel:
                self.work.queue(PROXY_TUNNEL_UNSUPPORTED_SCHEME)
                return True
            assert self.request.is_complete
            self.connect_upstream()
            self.work.queue(PROXY_TUNNEL_ESTABLISHED_RESPONSE_PKT)
            return None

    return make_flags(work_klass=HttpsConnectTunnelHandler, threadless=True, local_executor=1,
                      timeout=3600, **opts)
