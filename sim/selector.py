"""SimSelector: stand-in for selectors.DefaultSelector (EpollSelector).

Two layers are modelled explicitly, because several properties depend on what
happens when a descriptor is closed while registered and its number is reused:

* the Python-level map fd -> SelectorKey (``_fd_to_key``), which only changes
  through register/modify/unregister, and
* the kernel-level interest set, keyed by (fd number, open file description);
  an entry disappears by itself when its description is closed (all
  descriptors referring to it are gone), not merely when the number is closed.

Exceptions and their order follow CPython 3.12 `selectors.py` /
`_PollLikeSelector` + `EpollSelector`; `sim/conformance.py` compares the
behaviour with the real thing.
"""
import errno
import os
import selectors
from selectors import EVENT_READ, EVENT_WRITE, SelectorKey
from typing import Any, Dict, List, Mapping, Optional, Tuple

from .kernel import P_ERR, P_HUP, P_IN, P_OUT, FD_BASE, HarnessError, OFD, World

_RealDefaultSelector = selectors.DefaultSelector


class _Map(Mapping):    # type: ignore[type-arg]
    def __init__(self, sel: 'SimSelector') -> None:
        self._sel = sel

    def __len__(self) -> int:
        return len(self._sel._fd_to_key)

    def __getitem__(self, fileobj: Any) -> SelectorKey:
        try:
            fd = self._sel._fileobj_lookup(fileobj)
            return self._sel._fd_to_key[fd]
        except KeyError:
            raise KeyError('{!r} is not registered'.format(fileobj)) from None

    def __iter__(self):     # type: ignore[no-untyped-def]
        return iter(self._sel._fd_to_key)


def _fileobj_to_fd(fileobj: Any) -> int:
    if isinstance(fileobj, int):
        fd = fileobj
    else:
        try:
            fd = int(fileobj.fileno())
        except (AttributeError, TypeError, ValueError):
            raise ValueError('Invalid file object: {!r}'.format(fileobj)) from None
    if fd < 0:
        raise ValueError('Invalid file descriptor: {}'.format(fd))
    return fd


class SimSelector:
    def __init__(self) -> None:
        w = World.active
        if w is None:
            raise HarnessError('selector outside a simulation')
        self.w = w
        self._fd_to_key: Dict[int, SelectorKey] = {}
        # kernel level: fd -> (description, event mask)
        self._epoll: Dict[int, Tuple[OFD, int]] = {}
        self._map: Optional[_Map] = _Map(self)
        self._closed = False
        self._spin_sig: Any = None
        self._spin_n = 0
        self._proc = w.cur_proc()
        w.stats['selectors'] += 1
        w.selectors.append(self)

    # -- helpers --------------------------------------------------------
    def _fileobj_lookup(self, fileobj: Any) -> int:
        try:
            return _fileobj_to_fd(fileobj)
        except ValueError:
            for key in self._fd_to_key.values():
                if key.fileobj is fileobj:
                    return key.fd
            raise

    def _purge(self) -> None:
        dead = [fd for fd, (o, _) in self._epoll.items() if o.refs <= 0]
        for fd in dead:
            del self._epoll[fd]

    def _kernel_lookup(self, fd: int) -> OFD:
        o = self._proc.fds.get(fd)
        if o is None:
            raise OSError(errno.EBADF, 'Bad file descriptor')
        return o

    def _ctl_fault(self, o: OFD) -> None:
        """epoll_ctl(ADD / MOD) can fail with ENOMEM, ADD also with ENOSPC (max_user_watches): injected only for streams
        marked faultable and only in runs that enable the 'epoll_ctl' fault site (no tape draw otherwise)."""
        if getattr(o, 'faultable', False):
            k = self.w.fault('epoll_ctl', o)    # type: ignore[arg-type]
            if k:
                raise OSError(getattr(errno, k), os.strerror(getattr(errno, k)))

    # -- API --------------------------------------------------------------
    def register(self, fileobj: Any, events: int, data: Any = None) -> SelectorKey:
        self.w.syscall()
        if (not events) or (events & ~(EVENT_READ | EVENT_WRITE)):
            raise ValueError('Invalid events: {!r}'.format(events))
        key = SelectorKey(fileobj, self._fileobj_lookup(fileobj), events, data)
        if key.fd in self._fd_to_key:
            self.w.ev(self.w.ename(), 'sel.register', 'fd=%d KeyError' % key.fd)
            raise KeyError('{!r} (FD {}) is already registered'.format(fileobj, key.fd))
        self._fd_to_key[key.fd] = key
        try:
            self._purge()
            o = self._kernel_lookup(key.fd)
            self._ctl_fault(o)
            ent = self._epoll.get(key.fd)
            if ent is not None and ent[0] is o:
                raise FileExistsError(errno.EEXIST, 'File exists')
            self._epoll[key.fd] = (o, events)
        except BaseException:
            del self._fd_to_key[key.fd]
            self.w.ev(self.w.ename(), 'sel.register', 'fd=%d OSError' % key.fd)
            raise
        self.w.ev(self.w.ename(), 'sel.register', 'fd=%d ev=%d' % (key.fd, events))
        return key

    def unregister(self, fileobj: Any) -> SelectorKey:
        self.w.syscall()
        try:
            key = self._fd_to_key.pop(self._fileobj_lookup(fileobj))
        except KeyError:
            self.w.ev(self.w.ename(), 'sel.unregister', 'KeyError')
            raise KeyError('{!r} is not registered'.format(fileobj)) from None
        # EpollSelector.unregister swallows OSError from the kernel call
        self._purge()
        ent = self._epoll.get(key.fd)
        if ent is not None:
            o = self._proc.fds.get(key.fd)
            if o is ent[0]:
                del self._epoll[key.fd]
        self.w.ev(self.w.ename(), 'sel.unregister', 'fd=%d' % key.fd)
        return key

    def modify(self, fileobj: Any, events: int, data: Any = None) -> SelectorKey:
        self.w.syscall()
        try:
            key = self._fd_to_key[self._fileobj_lookup(fileobj)]
        except KeyError:
            self.w.ev(self.w.ename(), 'sel.modify', 'KeyError')
            raise KeyError('{!r} is not registered'.format(fileobj)) from None
        changed = False
        if events != key.events:
            try:
                self._purge()
                o = self._kernel_lookup(key.fd)     # EBADF
                self._ctl_fault(o)
                ent = self._epoll.get(key.fd)
                if ent is None or ent[0] is not o:
                    raise FileNotFoundError(errno.ENOENT, 'No such file or directory')
                self._epoll[key.fd] = (o, events)
            except BaseException:
                self._fd_to_key.pop(key.fd, None)
                self.w.ev(self.w.ename(), 'sel.modify', 'fd=%d OSError' % key.fd)
                raise
            changed = True
        if data != key.data:
            changed = True
        if changed:
            key = key._replace(events=events, data=data)
            self._fd_to_key[key.fd] = key
        self.w.ev(self.w.ename(), 'sel.modify', 'fd=%d ev=%d' % (key.fd, events))
        return key

    def _ready(self) -> List[Tuple[SelectorKey, int]]:
        self._purge()
        out: List[Tuple[SelectorKey, int]] = []
        for fd in sorted(self._epoll):
            o, mask = self._epoll[fd]
            p = o.poll()
            ev = 0
            # EpollSelector: anything but EPOLLIN -> WRITE, anything but EPOLLOUT -> READ
            want_in = bool(mask & EVENT_READ)
            want_out = bool(mask & EVENT_WRITE)
            got = 0
            if want_in and (p & P_IN):
                got |= P_IN
            if want_out and (p & P_OUT):
                got |= P_OUT
            got |= p & (P_ERR | P_HUP)      # always reported by epoll
            if not got:
                continue
            if got & ~P_IN:
                ev |= EVENT_WRITE
            if got & ~P_OUT:
                ev |= EVENT_READ
            key = self._fd_to_key.get(fd)
            if key is not None:
                ev &= key.events
                if ev:
                    out.append((key, ev))
        return out

    def select(self, timeout: Optional[float] = None) -> List[Tuple[SelectorKey, int]]:
        w = self.w
        w.syscall()
        if self._closed:
            raise ValueError('I/O operation on closed epoll object')
        if w.select_hook is not None:
            w.select_hook(self)
        ready = self._ready()
        if not ready and (timeout is None or timeout > 0):
            w.block(lambda: bool(self._ready()), timeout, 'select')
            ready = self._ready()
        elif ready and (w.actors or len(w.threads) > 1):
            # peers run concurrently with the caller: a select() that returns at
            # once is still a scheduling point, otherwise a level-triggered
            # descriptor would let the caller starve everybody else
            sig = (w.change_seq, tuple((k.fd, m) for k, m in ready))
            if sig == self._spin_sig:
                self._spin_n += 1
            else:
                self._spin_sig = sig
                self._spin_n = 0
            if self._spin_n >= 3:
                # the caller spins on a level-triggered descriptor it does not
                # service (nothing in the world changed between its last calls):
                # identical iterations are fast-forwarded, one select period each
                if self._spin_n == 3:
                    w.stats['probe:busy_spin'] += 1
                cs = w.change_seq
                w.block(lambda: w.change_seq != cs, 0.025, 'select-spin')
            else:
                w.block(None, None, 'select-ready')
            ready = self._ready()
        if len(ready) > 1 and w.shuffle_ready:
            w.aux_rng.shuffle(ready)
        w.ev(w.ename(), 'select', ','.join('%d:%d' % (k.fd, m) for k, m in ready))
        return ready

    def close(self) -> None:
        self._closed = True
        self._fd_to_key.clear()
        self._epoll.clear()
        self._map = None

    def get_map(self) -> Optional[Mapping]:    # type: ignore[type-arg]
        return self._map

    def get_key(self, fileobj: Any) -> SelectorKey:
        mapping = self.get_map()
        if mapping is None:
            raise RuntimeError('Selector is closed')
        try:
            return mapping[fileobj]
        except KeyError:
            raise KeyError('{!r} is not registered'.format(fileobj)) from None

    def __enter__(self) -> 'SimSelector':
        return self

    def __exit__(self, *a: Any) -> None:
        self.close()

    # -- introspection for oracles ------------------------------------------
    def kernel_fds(self) -> List[int]:
        self._purge()
        return sorted(self._epoll)


def sim_default_selector() -> Any:
    if World.active is None:
        return _RealDefaultSelector()
    return SimSelector()
