"""Harness levels: build the repository's real objects on top of the World.

L1  one real LocalFdExecutor.run() in a sim thread; the harness plays the
    acceptor by putting (socket, addr) on its work queue.
L3  thread-per-connection: the real start_threaded_work() per connection.
(L2 and LE live in harness2.py.)
"""
import argparse
import os
from typing import Any, Callable, Dict, List, Optional

from .actors import Peer
from .kernel import SimThread, Stream, World
from .sockets import SimSocket

_flag_cache: Dict[str, argparse.Namespace] = {}


def make_flags(args: Optional[List[str]] = None, **opts: Any) -> argparse.Namespace:
    """The repository's own flag initialisation (plugin loading included)."""
    from proxy.common.flag import FlagParser
    base = ['--num-workers', '1', '--num-acceptors', '1']
    # options FlagParser.initialize() does not take from keyword arguments must go through the command line
    for key, flag in (('max_sendbuf_size', '--max-sendbuf-size'),):
        if key in opts:
            base += [flag, str(opts.pop(key))]
    flags = FlagParser.initialize(base + list(args or []), **opts)
    return flags


class L1:
    """One executor, harness as acceptor."""

    def __init__(self, world: World, flags: argparse.Namespace, iid: str = '1') -> None:
        from proxy.core.work.fd import LocalFdExecutor
        from proxy.common.backports import NonBlockingQueue
        self.w = world
        self.flags = flags
        self.q = NonBlockingQueue()
        self.ex = LocalFdExecutor(iid=iid, work_queue=self.q, flags=flags)
        self.thread = SimThread(target=self.ex.run, name='executor')
        self.thread.start()
        self.accepted: List[Stream] = []
        self.n = 0

    def connector(self, cap_to_proxy: int = 65536, cap_to_client: int = 65536,
                  faultable: bool = False, track_io: bool = False,
                  addr: Optional[Any] = None) -> Callable[[Peer], Optional[Stream]]:
        def fn(peer: Peer) -> Optional[Stream]:
            w = self.w
            self.n += 1
            a, b = w.stream_pair(cap_to_client, cap_to_proxy, peer.name + ':a', peer.name + ':p')
            b.faultable = faultable
            if track_io:
                b.io_times = []
            caddr = addr or ('127.0.0.1', 50000 + self.n)
            a.laddr, a.raddr = caddr, ('127.0.0.1', 8899)
            b.laddr, b.raddr = ('127.0.0.1', 8899), caddr
            fd = w.main_proc.alloc(b)
            # the accepted socket object, as Acceptor.accept() would hand it over
            cur = w.current
            sock = SimSocket(fileno=fd)
            sock._spid = w.main_proc.pid
            self.accepted.append(b)
            w.ev(peer.name, 'connect', 'fd=%d' % fd)
            self.q.put((sock, caddr))
            del cur
            return a
        return fn

    def alive(self) -> bool:
        return not self.thread.finished

    def stop(self, wait: float = 30.0) -> bool:
        """Ask the executor to stop the way Acceptor._stop_local does."""
        if self.thread.finished:
            return True
        self.ex.running.set()
        self.q.put(False)
        self.w.run_until(lambda: self.thread.finished, wait)
        return self.thread.finished


class L3:
    """Thread per connection."""

    def __init__(self, world: World, flags: argparse.Namespace) -> None:
        self.w = world
        self.flags = flags
        self.works: List[Any] = []
        self.threads: List[Any] = []
        self.accepted: List[Stream] = []
        self.n = 0

    def connector(self, cap_to_proxy: int = 65536, cap_to_client: int = 65536,
                  faultable: bool = False, track_io: bool = False) -> Callable[[Peer], Optional[Stream]]:
        from proxy.core.work import start_threaded_work

        def fn(peer: Peer) -> Optional[Stream]:
            w = self.w
            self.n += 1
            a, b = w.stream_pair(cap_to_client, cap_to_proxy, peer.name + ':a', peer.name + ':p')
            b.faultable = faultable
            if track_io:
                b.io_times = []
            caddr = ('127.0.0.1', 50000 + self.n)
            a.laddr, a.raddr = caddr, ('127.0.0.1', 8899)
            b.laddr, b.raddr = ('127.0.0.1', 8899), caddr
            fd = w.main_proc.alloc(b)
            sock = SimSocket(fileno=fd)
            sock._spid = w.main_proc.pid
            self.accepted.append(b)
            w.ev(peer.name, 'connect', 'fd=%d' % fd)
            work, th = start_threaded_work(self.flags, sock, caddr)
            self.works.append(work)
            self.threads.append(th)
            return a
        return fn

    def alive(self) -> bool:
        return True


def scratch_dir() -> str:
    d = os.environ.get('VERIF_SCRATCH')
    if not d:
        raise RuntimeError('VERIF_SCRATCH not set')
    return d


class L1R:
    """One real RemoteFdExecutor.run() in a sim thread; the harness plays the
    acceptor's delegate_work_to_pool(): address, then the descriptor, over a pipe."""

    def __init__(self, world: World, flags: argparse.Namespace, iid: str = '1') -> None:
        from proxy.core.work.fd import RemoteFdExecutor
        from .mp import sim_pipe
        self.w = world
        self.flags = flags
        self.parent_conn, child = sim_pipe()
        self.ex = RemoteFdExecutor(iid=iid, work_queue=child, flags=flags)
        self.thread = SimThread(target=self.ex.run, name='executor')
        self.thread.start()
        self.accepted: List[Stream] = []
        self.n = 0

    def connector(self, cap_to_proxy: int = 65536, cap_to_client: int = 65536,
                  faultable: bool = False, track_io: bool = False,
                  addr: Optional[Any] = None) -> Callable[[Peer], Optional[Stream]]:
        from .mp import sim_send_handle

        def fn(peer: Peer) -> Optional[Stream]:
            w = self.w
            self.n += 1
            a, b = w.stream_pair(cap_to_client, cap_to_proxy, peer.name + ':a', peer.name + ':p')
            b.faultable = faultable
            if track_io:
                b.io_times = []
            caddr = addr or ('127.0.0.1', 50000 + self.n)
            a.laddr, a.raddr = caddr, ('127.0.0.1', 8899)
            b.laddr, b.raddr = ('127.0.0.1', 8899), caddr
            # actor steps run inside whichever thread holds the baton; descriptor
            # bookkeeping must happen in the main process table
            cur = w.current
            saved = cur.proc if cur is not None else None
            if cur is not None:
                cur.proc = w.main_proc
            try:
                fd = w.main_proc.alloc(b)
                sock = SimSocket(fileno=fd)
                self.accepted.append(b)
                w.ev(peer.name, 'connect', 'fd=%d' % fd)
                # delegate_work_to_pool(): send addr, send handle, close our copy
                self.parent_conn.send(caddr)
                sim_send_handle(self.parent_conn, sock.fileno(), None)
                sock.close()
            finally:
                if cur is not None:
                    cur.proc = saved
            return a
        return fn

    def alive(self) -> bool:
        return not self.thread.finished

    def stop(self, wait: float = 30.0) -> bool:
        if self.thread.finished:
            return True
        self.ex.running.set()
        self.w.run_until(lambda: self.thread.finished, wait)
        return self.thread.finished
