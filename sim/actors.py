"""Scripted peers: clients and origin servers.

A `Peer` owns the actor-side end of a stream and executes a script of small
operations, one scheduler step at a time.  Independently of the script it has
a reader that drains its receive queue into `rx` at a pace chosen by the tape.
All byte counts and interleavings come from the World's tape.
"""
from typing import Any, Callable, List, Optional, Tuple

from .kernel import Actor, Remote, Stream, World

# ---------------------------------------------------------------------------
# a tolerant HTTP/1.x message splitter used for actor control flow only
# (oracles use h11)
# ---------------------------------------------------------------------------


def split_http_message(buf: bytes, start: int = 0, is_response: bool = False,
                       head_request: bool = False) -> Optional[Tuple[int, dict]]:
    """If buf[start:] begins with a complete self-delimiting message, return
    (end_offset, info).  info: start_line, headers (list of (name, value)),
    body (decoded), framing.  None if incomplete.  Close-delimited responses
    are never complete here."""
    i = buf.find(b'\r\n\r\n', start)
    if i < 0:
        return None
    head = buf[start:i]
    lines = head.split(b'\r\n')
    start_line = lines[0]
    headers: List[Tuple[bytes, bytes]] = []
    for ln in lines[1:]:
        k, _, v = ln.partition(b':')
        headers.append((k.strip(), v.strip()))
    pos = i + 4
    te = [v for k, v in headers if k.lower() == b'transfer-encoding']
    cl = [v for k, v in headers if k.lower() == b'content-length']
    info = {'start_line': start_line, 'headers': headers, 'body': b'', 'framing': 'none',
            'head_end': pos}
    status = 0
    if is_response:
        parts = start_line.split(b' ', 2)
        try:
            status = int(parts[1])
        except (IndexError, ValueError):
            status = 0
        info['status'] = status
        if head_request or status // 100 == 1 or status in (204, 304):
            return pos, info
    if te and te[-1].lower().strip() == b'chunked':
        info['framing'] = 'chunked'
        body = bytearray()
        while True:
            j = buf.find(b'\r\n', pos)
            if j < 0:
                return None
            szline = buf[pos:j].split(b';', 1)[0].strip()
            try:
                sz = int(szline, 16)
            except ValueError:
                return None
            pos = j + 2
            if sz == 0:
                # trailers until blank line
                while True:
                    j = buf.find(b'\r\n', pos)
                    if j < 0:
                        return None
                    if j == pos:
                        pos += 2
                        info['body'] = bytes(body)
                        return pos, info
                    pos = j + 2
            if len(buf) < pos + sz + 2:
                return None
            body += buf[pos:pos + sz]
            pos += sz + 2
    if cl:
        try:
            n = int(cl[0])
        except ValueError:
            n = 0
        info['framing'] = 'length'
        if len(buf) < pos + n:
            return None
        info['body'] = bytes(buf[pos:pos + n])
        return pos + n, info
    if is_response:
        info['framing'] = 'close'
        return None
    return pos, info


class Peer(Actor):
    """A scripted endpoint."""

    def __init__(self, world: World, name: str, script: Optional[List[Any]] = None,
                 read_mode: str = 'eager', order: int = 0) -> None:
        self.w = world
        self.name = name
        self.order = order
        self.st: Optional[Stream] = None
        self.script: List[Any] = list(script or [])
        self.pc = 0
        self.rx = bytearray()
        self.rx_events: List[Tuple[str, int]] = []
        self.saw_eof = False
        self.saw_reset = False
        self.t_eof: Optional[float] = None
        self.t_last_rx: Optional[float] = None
        self.t_last_tx: Optional[float] = None
        self.tx = bytearray()
        self.closed = False
        self.reading = True
        self.read_mode = read_mode      # eager | chunky (tape decides sizes)
        self.read_max = 1 << 20
        self._sleep_until: Optional[float] = None
        self._send_pos = 0
        self._cut_idx = 0
        self.on_rx: Optional[Callable[['Peer'], None]] = None
        self.failed: Optional[str] = None
        self.parse_pos = 0
        self.served = 0
        self.connect_fn: Optional[Callable[['Peer'], Optional[Stream]]] = None
        self.refused = False
        self.done_time: Optional[float] = None
        self.tls: Any = None                # sim.tls.TLSLayer once a 'tls_client' / 'tls_server' op ran
        self._raw_out = bytearray()         # TLS records waiting for room on the stream
        self.raw_rx_total = 0
        world.actors.append(self)

    # -- helpers ----------------------------------------------------------
    def attach(self, st: Stream) -> None:
        self.st = st
        st.owner = 'actor'

    def finished(self) -> bool:
        return self.pc >= len(self.script)

    def _op(self) -> Any:
        return self.script[self.pc] if self.pc < len(self.script) else None

    def _advance(self) -> None:
        self.pc += 1
        self._send_pos = 0
        self._cut_idx = 0
        self._sleep_until = None
        if self.pc >= len(self.script) and self.done_time is None:
            self.done_time = self.w.now

    # -- readiness ----------------------------------------------------------
    def _read_ready(self) -> bool:
        st = self.st
        if st is None or self.closed or not self.reading:
            return False
        op = self._op()
        if op is not None and op[0] in ('tls_client', 'tls_server'):
            return False        # what arrives from now on belongs to the TLS session about to start
        if st.rx:
            return True
        if (st.fin_rcvd and not self.saw_eof and not st.rst_rcvd) or \
                (st.rst_rcvd and not self.saw_reset):
            return True
        return False

    def _script_ready(self) -> bool:
        op = self._op()
        if op is None:
            return False
        k = op[0]
        st = self.st
        if k == 'connect':
            return True
        if k == 'sleep':
            if self._sleep_until is None:
                return True
            return self.w.now >= self._sleep_until
        if k == 'call':
            return True
        if k == 'at':
            return self.w.now >= op[1]
        if k in ('tls_client', 'tls_server'):
            return True
        if k == 'wait_tls':
            return self.tls is None or self.tls.done or self.tls.error is not None or self.saw_eof or self.saw_reset or self.closed
        if self.tls is not None and k in ('send', 'close', 'shut_wr') and not (self.closed or st is None):
            if k == 'send':
                if not self.tls.done:
                    return self.tls.error is not None or self.saw_eof or self.saw_reset
                return len(self._raw_out) < 65536
            return not self._raw_out or st.wr_shut or (st.peer is not None and st.peer.closed)
        if self.closed or st is None:
            # the connection is gone: remaining ops are skipped one per step
            return True
        if k == 'send':
            if st.wr_shut:
                return True
            mode = op[2] if len(op) > 2 else 'burst'
            if mode == 'cuts' and self._send_pos > 0 and self._at_cut(op) and st.peer is not None \
                    and st.peer.rx and not st.peer.closed:
                return False        # wait for the receiver to drain the previous piece
            return st.room() > 0
        if k == 'wait_drain':
            return st.peer is None or st.peer.closed or not st.peer.rx
        if k == 'wait_rx':
            return op[1](self) or self.saw_eof or self.saw_reset
        if k == 'wait_eof':
            return self.saw_eof or self.saw_reset
        if k == 'serve':
            return self._serve_ready(op) or self.saw_eof or self.saw_reset
        return True

    def _at_cut(self, op: Any) -> bool:
        cuts = op[3] if len(op) > 3 else []
        return self._send_pos in cuts

    def _flush_ready(self) -> bool:
        st = self.st
        return bool(self._raw_out) and st is not None and not self.closed and not st.wr_shut and st.room() > 0

    def enabled(self) -> bool:
        return self._read_ready() or self._flush_ready() or self._script_ready()

    def next_deadline(self) -> Optional[float]:
        op = self._op()
        if self._sleep_until is not None and op is not None and op[0] == 'sleep':
            return self._sleep_until
        if op is not None and op[0] == 'at' and self.w.now < op[1]:
            return op[1]
        return None

    # -- steps ------------------------------------------------------------------
    def step(self) -> None:
        if self._flush_ready():
            self._flush_step()
            return
        r = self._read_ready()
        s = self._script_ready()
        if r and s:
            if self.w.tape.draw(2, 'peer-rs') == 0:
                self._read_step()
            else:
                self._script_step()
        elif r:
            self._read_step()
        elif s:
            self._script_step()

    def _flush_step(self) -> None:
        st = self.st
        assert st is not None
        room = st.room()
        k = min(len(self._raw_out), room)
        if self.read_mode == 'chunky' and k > 1:
            k = 1 + self.w.tape.small(k, 'tlsflush')
        try:
            n = st.k_send(bytes(self._raw_out[:k]))
        except OSError as e:
            self.failed = 'send:%s' % type(e).__name__
            self._raw_out.clear()
            self.w.ev(self.name, 'write', type(e).__name__)
            return
        del self._raw_out[:n]
        self.w.ev(self.name, 'write-tls', n)

    def _tls_pump(self) -> None:
        t = self.tls
        t.pump()
        out = t.take_out()
        if out:
            self._raw_out += out
        if t.plain:
            self.rx += t.plain
            self.rx_events.append(('data', len(t.plain)))
            t.plain.clear()
            self.t_last_rx = self.w.now
            if self.on_rx is not None:
                self.on_rx(self)

    def _read_step(self) -> None:
        st = self.st
        assert st is not None
        w = self.w
        if st.rx and self.tls is not None:
            n = len(st.rx)
            lim = min(n, self.read_max)
            k = 1 + w.tape.small(lim, 'readlen') if (self.read_mode == 'chunky' and lim > 1) else lim
            data = st.k_recv(min(k, lim))
            self.raw_rx_total += len(data)
            w.ev(self.name, 'read-tls', len(data))
            self.tls.feed(data)
            self._tls_pump()
            return
        if self.tls is not None and (st.rst_rcvd or (st.fin_rcvd and not self.saw_eof)):
            if not getattr(self, '_tls_eof_fed', False):
                self._tls_eof_fed = True
                self.tls.feed_eof()
                self._tls_pump()
        if st.rx:
            n = len(st.rx)
            lim = min(n, self.read_max)
            if self.read_mode == 'chunky' and lim > 1:
                k = 1 + w.tape.small(lim, 'readlen')
                if k > lim:
                    k = lim
            else:
                k = lim
            data = st.k_recv(k)
            self.rx += data
            self.rx_events.append(('data', len(data)))
            self.t_last_rx = w.now
            w.ev(self.name, 'read', len(data))
            if self.on_rx is not None:
                self.on_rx(self)
            return
        if st.rst_rcvd:
            st.rst_rcvd = False
            st.fin_rcvd = True
            self.saw_reset = True
            self.t_eof = w.now
            self.rx_events.append(('reset', 0))
            w.ev(self.name, 'read', 'RESET')
            w.touch()
            return
        if st.fin_rcvd and not self.saw_eof:
            self.saw_eof = True
            self.t_eof = w.now
            self.rx_events.append(('eof', 0))
            w.ev(self.name, 'read', 'EOF')
            w.touch()

    def _script_step(self) -> None:
        op = self._op()
        w = self.w
        k = op[0]
        st = self.st
        if k == 'connect':
            assert self.connect_fn is not None
            s = self.connect_fn(self)
            if s is None:
                self.refused = True
                self.closed = True
            else:
                self.attach(s)
            w.touch()
            self._advance()
            return
        if k == 'sleep':
            if self._sleep_until is None:
                self._sleep_until = w.now + op[1]
                return
            self._advance()
            return
        if k == 'call':
            op[1](self)
            self._advance()
            return
        if k == 'at':
            self._advance()
            return
        if k in ('tls_client', 'tls_server'):
            from .tls import TLSLayer
            self.tls = TLSLayer(op[1], k == 'tls_server', op[2] if len(op) > 2 else None)
            self._tls_pump()
            w.ev(self.name, k, '')
            self._advance()
            return
        if k == 'wait_tls':
            self._advance()
            return
        if self.closed or st is None:
            self._advance()
            return
        if k == 'send' and self.tls is not None:
            if not self.tls.done:
                self.failed = 'tls:%s' % (self.tls.error or 'eof')
                self._advance()
                return
            data = op[1]
            mode = op[2] if len(op) > 2 else 'burst'
            remaining = len(data) - self._send_pos
            kk = remaining
            if mode == 'dribble':
                mx = op[3] if len(op) > 3 else 64
                kk = min(remaining, 1 + w.tape.small(min(remaining, mx), 'sendlen')) if remaining > 1 else remaining
            elif mode == 'cuts':
                nxt = min([c for c in op[3] if c > self._send_pos] + [len(data)])
                kk = nxt - self._send_pos
            if kk > 0:
                try:
                    self.tls.write(bytes(data[self._send_pos:self._send_pos + kk]))
                except OSError as e:        # ssl.SSLError: the session is gone (peer closed / alert)
                    self.failed = 'tls-send:%s' % type(e).__name__
                    w.ev(self.name, 'write-plain', type(e).__name__)
                    self._advance()
                    return
                self._raw_out += self.tls.take_out()
                self.tx += data[self._send_pos:self._send_pos + kk]
                self._send_pos += kk
                self.t_last_tx = w.now
                w.ev(self.name, 'write-plain', kk)
            if self._send_pos >= len(data):
                self._advance()
            return
        if k == 'send':
            data = op[1]
            mode = op[2] if len(op) > 2 else 'burst'
            if st.wr_shut:
                self._advance()
                return
            remaining = len(data) - self._send_pos
            if remaining <= 0:
                self._advance()
                return
            room = st.room()
            lim = min(remaining, room)
            if mode == 'cuts':
                cuts = op[3]
                nxt = min([c for c in cuts if c > self._send_pos] + [len(data)])
                lim = min(lim, nxt - self._send_pos)
                kk = lim
            elif mode == 'dribble':
                mx = op[3] if len(op) > 3 else 64
                kk = 1 + w.tape.small(min(lim, mx), 'sendlen') if lim > 1 else lim
                kk = min(kk, lim)
            else:
                kk = lim
            try:
                n = st.k_send(data[self._send_pos:self._send_pos + kk])
            except OSError as e:
                self.failed = 'send:%s' % type(e).__name__
                w.ev(self.name, 'write', type(e).__name__)
                self._advance()
                return
            self.tx += data[self._send_pos:self._send_pos + n]
            self._send_pos += n
            self.t_last_tx = w.now
            w.ev(self.name, 'write', n)
            if self._send_pos >= len(data):
                self._advance()
            return
        if k in ('wait_drain', 'wait_rx', 'wait_eof'):
            self._advance()
            return
        if k == 'serve':
            self._serve_step(op)
            return
        if k == 'shut_wr':
            try:
                st.k_shutdown_wr()
            except OSError:
                pass
            w.ev(self.name, 'shut_wr', '')
            self._advance()
            return
        if k == 'close':
            self.closed = True
            st.on_last_close(w)
            w.ev(self.name, 'close', '')
            self._advance()
            return
        if k == 'reset':
            self.closed = True
            st.k_reset()
            w.ev(self.name, 'reset', '')
            self._advance()
            return
        if k == 'pause_read':
            self.reading = False
            self._advance()
            return
        if k == 'resume_read':
            self.reading = True
            self._advance()
            return
        raise ValueError('unknown op %r' % (k,))

    # -- 'serve': an HTTP origin loop ----------------------------------------------
    # op = ('serve', responder, max_requests)
    # responder(peer, info) -> list of ops to splice in (e.g. [('send', bytes, ...)])
    def _serve_ready(self, op: Any) -> bool:
        return split_http_message(bytes(self.rx), self.parse_pos) is not None

    def _serve_step(self, op: Any) -> None:
        r = split_http_message(bytes(self.rx), self.parse_pos)
        if r is None:
            # eof / reset while waiting
            self._advance()
            return
        end, info = r
        info['raw'] = bytes(self.rx[self.parse_pos:end])
        self.parse_pos = end
        self.served += 1
        ops = op[1](self, info)
        mx = op[2] if len(op) > 2 else 1 << 30
        tail = [op] if self.served < mx else []
        self.script[self.pc:self.pc + 1] = list(ops) + tail
        self._send_pos = 0
        self._cut_idx = 0


class Origin:
    """An origin server: registers (host, port) with the World; every accepted
    connection becomes a Peer running the script returned by `factory`."""

    def __init__(self, world: World, host: str, port: int,
                 factory: Callable[[int], List[Any]], *, name: str = '',
                 mode: str = 'accept', cap_in: int = 65536, cap_out: int = 65536,
                 latency: float = 0.0, read_mode: str = 'eager',
                 on_rx: Optional[Callable[[Peer], None]] = None, reading: bool = True) -> None:
        self.w = world
        self.host = host
        self.port = port
        self.name = name or '%s:%d' % (host, port)
        self.factory = factory
        self.conns: List[Peer] = []
        self.read_mode = read_mode
        self.on_rx = on_rx
        self.reading = reading          # False: connections start with reading paused (no race with a 'pause_read' op)
        self.remote = Remote(mode=mode, on_connect=self._on_connect, cap_in=cap_in,
                             cap_out=cap_out, latency=latency, name=self.name)
        world.remote[(host, port)] = self.remote

    def _on_connect(self, st: Stream, addr: Any) -> None:
        idx = len(self.conns)
        p = Peer(self.w, 'origin[%s]#%d' % (self.name, idx), self.factory(idx),
                 read_mode=self.read_mode, order=100 + idx)
        p.attach(st)
        p.reading = self.reading
        p.on_rx = self.on_rx
        p.origin = self      # type: ignore[attr-defined]
        self.conns.append(p)
