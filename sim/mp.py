"""Simulated multiprocessing: processes are sim threads with their own pid and
descriptor table (fork semantics: the child inherits the parent's descriptors),
pipes are message queues in the World, handles travel as descriptions.

Objects are passed by reference (no pickling): sim processes share one heap.
"""
import errno
import queue as _queue
from typing import Any, List, Optional, Tuple

from .kernel import HarnessError, PipeEnd, Proc, SimThread, World


class SimProcess(SimThread):
    is_process = True

    def __init__(self, group: Any = None, target: Any = None, name: Any = None,
                 args: Any = (), kwargs: Any = None, *, daemon: Any = None) -> None:
        super().__init__(group=group, target=target, name=name or 'Process',
                         args=args, kwargs=kwargs, daemon=daemon)
        self._exitcode: Optional[int] = None

    def _new_proc(self, w: World) -> Proc:
        assert w.current is not None and w.current.proc is not None
        return w.new_proc(self.name, parent=w.current.proc)

    @property
    def pid(self) -> Optional[int]:
        return self.proc.pid if self.proc is not None and self.started else None

    @property
    def exitcode(self) -> Optional[int]:
        if not self.finished:
            return None
        return 1 if self.exc is not None else 0

    def _on_exit(self, w: World) -> None:
        if self.proc is not None:
            w.proc_exit(self.proc)

    def terminate(self) -> None:
        raise HarnessError('terminate() is not modelled')

    kill = terminate

    def close(self) -> None:
        pass


class SimConnection:
    """multiprocessing.connection.Connection over a PipeEnd."""

    def __init__(self, end: PipeEnd, fd: int, w: World) -> None:
        self._end = end
        self._fd = fd
        self._w = w
        self._closed = False
        self._pid = w.cur_proc().pid
        self.break_after: Optional[int] = None   # fault: BrokenPipeError from the n-th send on

    def fileno(self) -> int:
        if self._closed:
            raise OSError('handle is closed')
        return self._fd

    @property
    def closed(self) -> bool:
        return self._closed

    @property
    def readable(self) -> bool:
        return True

    @property
    def writable(self) -> bool:
        return True

    def _check(self) -> None:
        if self._closed:
            raise OSError('handle is closed')

    def send(self, obj: Any) -> None:
        self._check()
        w = self._w
        w.syscall()
        p = self._end.peer
        if self.break_after is not None:
            if self.break_after <= 0:
                w.stats['fault:pipe_broken'] += 1
                w.ev(w.ename(), 'pipe.send', 'fd=%d EPIPE(f)' % self._fd)
                raise BrokenPipeError(errno.EPIPE, 'Broken pipe')
            self.break_after -= 1
        if p is None or p.closed:
            w.ev(w.ename(), 'pipe.send', 'fd=%d EPIPE' % self._fd)
            raise BrokenPipeError(errno.EPIPE, 'Broken pipe')
        p.q.append(('obj', obj))
        w.touch()
        w.ev(w.ename(), 'pipe.send', 'fd=%d' % self._fd)

    def _send_handle(self, ofd: Any) -> None:
        self._check()
        w = self._w
        w.syscall()
        p = self._end.peer
        if p is None or p.closed:
            raise BrokenPipeError(errno.EPIPE, 'Broken pipe')
        ofd.refs += 1       # in flight
        p.q.append(('handle', ofd))
        w.touch()
        w.ev(w.ename(), 'pipe.send_handle', 'fd=%d %s' % (self._fd, ofd.label))

    def poll(self, timeout: Optional[float] = 0.0) -> bool:
        self._check()
        w = self._w
        w.syscall()
        e = self._end
        if e.q or (e.peer is not None and e.peer.closed):
            return True
        if timeout is not None and timeout <= 0:
            return False
        w.block(lambda: bool(e.q) or (e.peer is not None and e.peer.closed), timeout, 'pipe.poll')
        return bool(e.q) or (e.peer is not None and e.peer.closed)

    def _recv_item(self) -> Tuple[str, Any]:
        self._check()
        w = self._w
        w.syscall()
        e = self._end
        if not e.q:
            if e.peer is None or e.peer.closed:
                raise EOFError()
            w.block(lambda: bool(e.q) or (e.peer is not None and e.peer.closed), None, 'pipe.recv')
            if not e.q:
                raise EOFError()
        w.touch()
        return e.q.pop(0)

    def recv(self) -> Any:
        kind, obj = self._recv_item()
        if kind != 'obj':
            raise HarnessError('recv() got a handle')
        self._w.ev(self._w.ename(), 'pipe.recv', 'fd=%d' % self._fd)
        return obj

    def _recv_handle(self) -> int:
        kind, ofd = self._recv_item()
        if kind != 'handle':
            raise HarnessError('recv_handle() got an object')
        w = self._w
        fd = w.cur_proc().alloc(ofd)
        ofd.refs -= 1       # no longer in flight
        w.ev(w.ename(), 'pipe.recv_handle', 'fd=%d -> %d' % (self._fd, fd))
        return fd

    def close(self) -> None:
        if self._closed:
            return
        self._closed = True
        w = self._w
        if w.aborting or World.active is not w:
            return
        w.syscall()
        p = w.procs.get(self._pid)
        cur = w.cur_proc()
        # close in the table of whoever calls (fork: both have the number)
        tbl = cur if self._fd in cur.fds and cur.fds[self._fd] is self._end else p
        if tbl is not None and tbl.fds.get(self._fd) is self._end:
            w.ev(w.ename(), 'pipe.close', 'fd=%d' % self._fd)
            w._drop(tbl, self._fd)

    def __enter__(self) -> 'SimConnection':
        return self

    def __exit__(self, *a: Any) -> None:
        self.close()


def sim_pipe(duplex: bool = True) -> Tuple[SimConnection, SimConnection]:
    w = World.active
    if w is None:
        raise HarnessError('Pipe outside a simulation')
    w.syscall()
    w.pipe_seq += 1
    a = PipeEnd(w, 'pipe%d:a' % w.pipe_seq)
    b = PipeEnd(w, 'pipe%d:b' % w.pipe_seq)
    a.peer, b.peer = b, a
    p = w.cur_proc()
    fa = p.alloc(a)
    fb = p.alloc(b)
    w.ev(w.ename(), 'pipe', '%d,%d' % (fa, fb))
    return SimConnection(a, fa, w), SimConnection(b, fb, w)


def sim_send_handle(conn: SimConnection, handle: int, destination_pid: Optional[int]) -> None:
    w = conn._w
    ofd = w.fd_get(handle)
    conn._send_handle(ofd)


def sim_recv_handle(conn: SimConnection) -> int:
    return conn._recv_handle()


class SimLock:
    def __init__(self, *a: Any, **k: Any) -> None:
        self._held = False
        self._owner: Any = None

    def acquire(self, block: bool = True, timeout: Optional[float] = None) -> bool:
        w = World.active
        if not self._held:
            self._held = True
            return True
        if not block or w is None:
            return False
        w.stats['lock_contended'] += 1
        ok = w.block(lambda: not self._held, timeout, 'lock')
        if not ok:
            return False
        self._held = True
        return True

    def release(self) -> None:
        if not self._held:
            raise ValueError('semaphore or lock released too many times')
        self._held = False

    def __enter__(self) -> bool:
        return self.acquire()

    def __exit__(self, *a: Any) -> None:
        self.release()

    def locked(self) -> bool:
        return self._held


class SimEvent:
    def __init__(self, *a: Any, **k: Any) -> None:
        self._flag = False

    def is_set(self) -> bool:
        return self._flag

    def set(self) -> None:
        self._flag = True

    def clear(self) -> None:
        self._flag = False

    def wait(self, timeout: Optional[float] = None) -> bool:
        w = World.active
        if self._flag or w is None:
            return self._flag
        w.block(lambda: self._flag, timeout, 'event')
        return self._flag


class SimQueue:
    """multiprocessing.Queue: FIFO, get(timeout) is a kernel wait."""

    def __init__(self, maxsize: int = 0, *a: Any, **k: Any) -> None:
        self._q: List[Any] = []
        self.put_seq = 0
        self.on_put: Any = None

    def put(self, obj: Any, block: bool = True, timeout: Optional[float] = None) -> None:
        w = World.active
        if w is not None:
            w.syscall()
            w.touch()
        self.put_seq += 1
        if self.on_put is not None:
            self.on_put(self.put_seq, obj)
        self._q.append(obj)

    def put_nowait(self, obj: Any) -> None:
        self.put(obj)

    def get(self, block: bool = True, timeout: Optional[float] = None) -> Any:
        w = World.active
        if w is not None:
            w.syscall()
        if not self._q:
            if not block or w is None:
                raise _queue.Empty
            w.block(lambda: bool(self._q), timeout, 'queue.get')
            if not self._q:
                raise _queue.Empty
        return self._q.pop(0)

    def get_nowait(self) -> Any:
        return self.get(False)

    def empty(self) -> bool:
        return not self._q

    def qsize(self) -> int:
        return len(self._q)

    def close(self) -> None:
        pass

    def join_thread(self) -> None:
        pass

    def cancel_join_thread(self) -> None:
        pass
