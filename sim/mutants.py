"""Sensitivity self-test: small realistic breakages of proxy.py that compile and
leave the example-based tests green.  Each is applied to a scratch copy of
/repo (outside /repo and /verif, removed afterwards); the quick check of the
property must then report a VIOLATION, and must exit 0 on the unchanged tree.

Entries: (id, property, file, old, new).  `old` must occur exactly once.
"""
import os
import shutil
import subprocess
import sys
import tempfile
import time
from typing import Any, List, Tuple

from . import runner

M: List[Tuple[str, str, str, str, str]] = [
    # ---- C01 ---------------------------------------------------------------
    ('c01-tail-off-by-one', 'C01', 'proxy/core/connection/connection.py',
     'self.buffer[0] = mv[sent:]', 'self.buffer[0] = mv[sent + 1:]'),
    ('c01-pop-on-partial', 'C01', 'proxy/core/connection/connection.py',
     "        if sent == len(mv):\n            self.buffer.pop(0)",
     "        if sent == len(mv) or sent >= 4096:\n            self.buffer.pop(0)"),
    ('c01-blockingio-counts-as-sent', 'C01', 'proxy/core/connection/connection.py',
     "            logger.warning('BlockingIOError when trying send to {0}'.format(self.tag))\n            return 0",
     "            logger.warning('BlockingIOError when trying send to {0}'.format(self.tag))\n            sent = 0\n            self.buffer.pop(0)\n            self._num_buffer -= 1\n            return 0"),
    ('c01-queue-at-head', 'C01', 'proxy/core/connection/connection.py',
     '        self.buffer.append(mv)', '        self.buffer.insert(0 if len(mv) == 3 else len(self.buffer), mv)'),
    # ---- C02 ---------------------------------------------------------------
    ('c02-no-via', 'C02', 'proxy/http/proxy/server.py',
     "                self.request.add_headers(\n                    [(b'Via', b'1.1 %s' % PROXY_AGENT_HEADER_VALUE)],\n                )",
     "                pass"),
    ('c02-path-slash', 'C02', 'proxy/http/parser/parser.py',
     "        path = self.path or b'/'\n        if for_proxy:", "        path = self.path.split(b'?')[0] if self.path else b'/'\n        if for_proxy:"),
    ('c02-lowercase-names', 'C02', 'proxy/http/parser/parser.py',
     "                    self.headers[k][0]: (\n                        self.headers[k][1]",
     "                    (self.headers[k][0].lower() if len(self.headers) > 5 else self.headers[k][0]): (\n                        self.headers[k][1]"),
    ('c02-revert-followup-fix', 'C02', 'proxy/http/proxy/server.py',
     "                    self.pipeline_request.del_headers(\n                        [\n                            httpHeaders.PROXY_AUTHORIZATION,\n                            httpHeaders.PROXY_CONNECTION,\n                        ],\n                    )\n",
     ""),
    # ---- C03 ---------------------------------------------------------------
    ('c03-drop-carry-over', 'C03', 'proxy/http/parser/parser.py',
     "            raw = memoryview(self.buffer.tobytes() + raw.tobytes())",
     "            raw = memoryview((self.buffer.tobytes() if len(self.buffer) != 3 else b'') + raw.tobytes())"),
    ('c03-revert-chunk-crlf', 'C03', 'proxy/http/parser/chunk.py',
     "            if raw.startswith(CRLF):\n                raw = raw[len(CRLF):]\n", ""),
    ('c03-chunk-size-decimal', 'C03', 'proxy/http/parser/chunk.py',
     "self.size = int(line.split(b';', 1)[0].strip(), 16)",
     "self.size = int(line.split(b';', 1)[0].strip(), 16 if len(line) < 3 else 10)"),
    # ---- C04 ---------------------------------------------------------------
    ('c04-pipeline-reset-skipped', 'C04', 'proxy/http/proxy/server.py',
     "                    if not self.pipeline_request.is_connection_upgrade:\n                        self.pipeline_request = None",
     "                    if not self.pipeline_request.is_connection_upgrade and \\\n                            self.pipeline_request.method != b'POST':\n                        self.pipeline_request = None"),
    ('c04-revert-reverse-reuse', 'C04', 'proxy/http/server/reverse.py',
     "            reuse = self.upstream is not None and \\\n                not self.upstream.closed and \\\n                self.upstream.addr == addr",
     "            reuse = False"),
    # ---- C05 ---------------------------------------------------------------
    ('c05-no-task-guard', 'C05', 'proxy/core/work/threadless.py',
     "            try:\n                teardown = task.result()\n            except Exception:\n                teardown = True",
     "            try:\n                teardown = task.result()\n            except OSError:\n                teardown = True"),
    ('c05-revert-cleanup-guard', 'C05', 'proxy/core/work/threadless.py',
     "        try:\n            self.works[work_id].shutdown()\n        except Exception as e:\n            logger.exception(\n                'Exception during shutdown of work#{0}'.format(work_id),\n                exc_info=e,\n            )\n        finally:\n            del self.works[work_id]\n            if self.work_queue_fileno() is not None:\n                os.close(work_id)",
     "        self.works[work_id].shutdown()\n        del self.works[work_id]\n        if self.work_queue_fileno() is not None:\n            os.close(work_id)"),
    # ---- C06 ---------------------------------------------------------------
    ('c06-400-without-final-crlf', 'C06', 'proxy/common/utils.py',
     "    pkt += CRLF\n    if body:\n        pkt += body\n    return pkt",
     "    pkt += CRLF if not (conn_close and line[1:2] == [b'400']) else b'\\r'\n    if body:\n        pkt += body\n    return pkt"),
    ('c06-no-teardown-after-400', 'C06', 'proxy/http/handler.py',
     "        if self.request.http_handler_protocol == httpProtocols.UNKNOWN:\n            self.work.queue(BAD_REQUEST_RESPONSE_PKT)\n            return True",
     "        if self.request.http_handler_protocol == httpProtocols.UNKNOWN:\n            self.work.queue(BAD_REQUEST_RESPONSE_PKT)\n            return False"),
    ('c06-content-length-off', 'C06', 'proxy/common/utils.py',
     "        headers[b'Content-Length'] = bytes_(len(body)) if body else b'0'",
     "        headers[b'Content-Length'] = bytes_(len(body) + (1 if len(body) > 1000 else 0)) if body else b'0'"),
    # ---- C07 ---------------------------------------------------------------
    ('c07-teardown-on-upstream-eof', 'C07', 'proxy/http/handler.py',
     "        if self.reads_teared and not self.work.has_buffer():\n            return True",
     "        if self.reads_teared and (not self.work.has_buffer() or len(self.work.buffer) > 2):\n            return True"),
    ('c10-no-upstream-close', 'C10', 'proxy/http/proxy/server.py',
     "            finally:\n                # TODO: Unwrap if wrapped before close?\n                self.upstream.close()",
     "            finally:\n                # TODO: Unwrap if wrapped before close?\n                if not self.request.is_https_tunnel:\n                    self.upstream.close()"),
    ('c10-skip-unregister', 'C10', 'proxy/core/work/threadless.py',
     "            for fileno in self.registered_events_by_work_ids[work_id]:\n                logger.debug(",
     "            for fileno in list(self.registered_events_by_work_ids[work_id])[:1]:\n                logger.debug("),
    ('c10-no-os-close-remote', 'C10', 'proxy/core/work/threadless.py',
     "            if self.work_queue_fileno() is not None:\n                os.close(work_id)",
     "            if self.work_queue_fileno() is not None and work_id % 2:\n                os.close(work_id)"),
    ('c10-reverse-upstream-leak', 'C10', 'proxy/http/server/reverse.py',
     "            logger.debug('Closing upstream server connection')\n            self.upstream.close()",
     "            logger.debug('Closing upstream server connection')\n            if self.upstream.has_buffer():\n                self.upstream.close()"),
    # ---- C20 ---------------------------------------------------------------
    ('c20-no-buffer-guard', 'C20', 'proxy/http/handler.py',
     "        if not self.work.has_buffer() and \\\n                self._connection_inactive_for() > self.flags.timeout:",
     "        if self._connection_inactive_for() > self.flags.timeout:"),
    ('c20-writes-not-activity', 'C20', 'proxy/http/handler.py',
     "            logger.debug('Client is write ready, flushing...')\n            self.last_activity = time.time()",
     "            logger.debug('Client is write ready, flushing...')"),
    ('c20-reaper-only-when-tick-resets', 'C20', 'proxy/core/work/threadless.py',
     "                    tick = 0\n                tick += 1",
     "                    tick = 0\n                tick += 1 if len(self.works) < 2 else 0"),
    ('c20-threaded-no-idle-check', 'C20', 'proxy/http/handler.py',
     "                if self.is_inactive():\n                    logger.debug(",
     "                if self.is_inactive() and self.plugin is not None:\n                    logger.debug("),
    ('c20-timeout-from-start', 'C20', 'proxy/http/handler.py',
     "        return time.time() - self.last_activity",
     "        return time.time() - (self.last_activity if self.request.is_complete else self.start_time)"),
    # ---- C08 ---------------------------------------------------------------
    ('c08-token-prefix', 'C08', 'proxy/http/proxy/auth.py',
     "                    or parts[1] != self.flags.auth_code:",
     "                    or not parts[1].startswith(self.flags.auth_code):"),
    ('c08-scheme-unchecked', 'C08', 'proxy/http/proxy/auth.py',
     "                    or parts[0].lower() != b'basic' \\\n", ""),
    ('c08-auth-after-user-plugins', 'C08', 'proxy/common/flag.py',
     "default_plugins + auth_plugins + requested_plugins", "default_plugins + requested_plugins + auth_plugins"),
    ('c08-auth-in-handle-client-request', 'C08', 'proxy/http/proxy/auth.py',
     "    def before_upstream_connection(", "    def handle_client_request("),
    ('c08-followup-credentials-forwarded', 'C08', 'proxy/http/proxy/server.py',
     "                    self.pipeline_request.del_headers(\n                        [\n                            httpHeaders.PROXY_AUTHORIZATION,\n                            httpHeaders.PROXY_CONNECTION,\n                        ],\n                    )\n",
     "                    self.pipeline_request.del_headers(\n                        [\n                            httpHeaders.PROXY_CONNECTION,\n                        ],\n                    )\n"),
    ('c08-token-case-insensitive', 'C08', 'proxy/http/proxy/auth.py',
     "                    or parts[1] != self.flags.auth_code:",
     "                    or parts[1].lower() != self.flags.auth_code.lower():"),
    ('c02-revert-upgrade-check-on-incomplete-parser', 'C02', 'proxy/http/proxy/server.py',
     "                        self.pipeline_request.is_complete and \\\n                        self.pipeline_request.is_connection_upgrade:",
     "                        self.pipeline_request.is_connection_upgrade:"),
    ('c08-revert-upgrade-check-on-incomplete-parser', 'C08', 'proxy/http/proxy/server.py',
     "                        self.pipeline_request.is_complete and \\\n                        self.pipeline_request.is_connection_upgrade:",
     "                        self.pipeline_request.is_connection_upgrade:"),
    ('c17-revert-undecodable-target-fix', 'C17', 'proxy/http/proxy/server.py',
     "'request_path': text_(self.request.path, errors='replace'),", "'request_path': text_(self.request.path),"),
    ('c10-revert-undecodable-target-fix', 'C10', 'proxy/http/proxy/server.py',
     "'request_path': text_(self.request.path, errors='replace'),", "'request_path': text_(self.request.path),"),
    ('c07-revert-upstream-write-failure-flush', 'C07', 'proxy/http/handler.py',
     "                if self.selector is None and self.work.has_buffer():\n                    self.must_flush_before_shutdown = True\n                    return False\n", ""),
    ('c12-https-default-port-80', 'C12', 'proxy/http/server/reverse.py',
     "                else self.choice.port or DEFAULT_HTTPS_PORT", "                else self.choice.port or DEFAULT_HTTP_PORT"),
    ('c12-https-upstream-not-wrapped', 'C12', 'proxy/http/server/reverse.py',
     "                    if self.choice.scheme == HTTPS_PROTO:", "                    if self.choice.scheme == HTTPS_PROTO and self.choice.port:"),
    ('c10-revert-web-undecodable-fix', 'C10', 'proxy/http/server/web.py',
     "text_(self.request.header(b'user-agent'), errors='replace')", "text_(self.request.header(b'user-agent'))"),
    ('c10-revert-threaded-flush-oserror', 'C10', 'proxy/http/handler.py',
     "        except OSError:\n            # Client is gone (reset, broken pipe, ...).", "        except BrokenPipeError:\n            # Client is gone (reset, broken pipe, ...)."),
    ('c11-revert-subject-escaping', 'C11', 'proxy/http/proxy/server.py',
     "                    upstream_subject.get(keys[key]).replace('\\\\', '\\\\\\\\')\n                    .replace('/', '\\\\/').replace('+', '\\\\+'),",
     "                    upstream_subject.get(keys[key]),"),
    ('c11-revert-empty-subject-fix', 'C11', 'proxy/http/proxy/server.py',
     "        subject = subject or '/'\n", ""),
    # ---- C14 ---------------------------------------------------------------
    ('c14-default-port-8080', 'C14', 'proxy/http/parser/parser.py',
     "                    if self._url.port is not None else DEFAULT_HTTP_PORT",
     "                    if self._url.port is not None else (DEFAULT_HTTP_PORT if self._url.remainder else 8080)"),
    ('c14-userinfo-kept-in-host', 'C14', 'proxy/http/url.py',
     "        parts = split_at[-1].split(COLON, 2)", "        parts = (split_at[-1] if username != b'' else raw).split(COLON, 2)"),
    ('c14-strip-one-bracket', 'C14', 'proxy/common/utils.py',
     "        addr = (addr[0][1:-1], addr[1])", "        addr = (addr[0][1:-1] if addr[0].count(':') < 7 else addr[0][1:], addr[1])"),
    ('c14-revert-port-zero', 'C14', 'proxy/http/parser/parser.py',
     "                    if self._url.port is not None else DEFAULT_HTTP_PORT", "                    if self._url.port else DEFAULT_HTTP_PORT"),
    ('c14-connect-default-port-80', 'C14', 'proxy/http/parser/parser.py',
     "                self.port = 443 if self._url.port is None else self._url.port",
     "                self.port = (443 if self._url.hostname[:1] != b'[' else 80) if self._url.port is None else self._url.port"),
    ('c14-port-int-lenient', 'C14', 'proxy/http/url.py',
     "int(parts[-1]) if parts[-1] else None", "int(parts[-1]) if parts[-1].isdigit() else None"),
    ('c14-revert-empty-port-v4', 'C14', 'proxy/http/url.py',
     "int(parts[-1]) if parts[-1] else None", "int(parts[-1])"),
    ('c14-revert-empty-port-v6', 'C14', 'proxy/http/url.py',
     "int(last_token[-1]) if last_token[-1] else None", "int(last_token[-1])"),
    ('c14-path-slashes-collapsed', 'C14', 'proxy/http/url.py',
     "            if remainder and not remainder.startswith(SLASH):\n                remainder = SLASH + remainder",
     "            if remainder:\n                remainder = SLASH + remainder.lstrip(SLASH)"),
    # ---- C13 ---------------------------------------------------------------
    ('c13-prefix-without-separator', 'C13', 'proxy/http/server/web.py',
     "not target.startswith(root.rstrip(os.sep) + os.sep)", "not target.startswith(root)"),
    ('c13-revert-fix', 'C13', 'proxy/http/server/web.py',
     "        if target != root and not target.startswith(root.rstrip(os.sep) + os.sep):\n            self.client.queue(NOT_FOUND_RESPONSE_PKT)\n            return\n", ""),
    ('c13-query-not-stripped', 'C13', 'proxy/http/server/web.py',
     "        path = text_(path).split('?', 1)[0]\n        # Resolve", "        path = text_(path).split('?x', 1)[0]\n        # Resolve"),
    ('c13-check-only-leading-dotdot', 'C13', 'proxy/http/server/web.py',
     "        target = os.path.abspath(self.flags.static_server_dir + path)",
     "        target = os.path.abspath(self.flags.static_server_dir + path) if path.startswith('/..') else root"),
    ('c13-gzip-truncated', 'C13', 'proxy/http/responses.py',
     "            body=gzip.compress(content)\n            if do_compress and content",
     "            body=gzip.compress(content[:2048])\n            if do_compress and content"),
    # ---- C12 ---------------------------------------------------------------
    ('c12-https-default-port-for-http', 'C12', 'proxy/http/server/reverse.py',
     "                self.choice.port or DEFAULT_HTTP_PORT\n                if self.choice.scheme == HTTP_PROTO",
     "                self.choice.port or DEFAULT_HTTPS_PORT\n                if self.choice.scheme == HTTP_PROTO"),
    ('c12-always-rewrite-host', 'C12', 'proxy/http/server/reverse.py',
     "                                if self.flags.rewrite_host_header\n                                else None",
     "                                if self.flags.rewrite_host_header or self.choice.port is None\n                                else None"),
    ('c12-route-search', 'C12', 'proxy/http/server/reverse.py',
     "                    pattern = re.compile(route[0])\n                    if pattern.match(text_(request.path)):",
     "                    pattern = re.compile(route[0])\n                    if pattern.search(text_(request.path)):"),
    ('c12-keep-client-path', 'C12', 'proxy/http/server/reverse.py',
     "                request.path = self.choice.remainder\n",
     "                request.path = self.choice.remainder if self.choice.remainder != b'/' else request.path\n"),
    ('c12-rewrite-drops-port', 'C12', 'proxy/http/server/reverse.py',
     "                                    if self.choice.port is not None\n                                    else b''",
     "                                    if self.choice.port is not None and self.choice.port != 8080\n                                    else b''"),
    # ---- C09 ---------------------------------------------------------------
    ('c09-reverse-order', 'C09', 'proxy/http/proxy/server.py',
     "        # Invoke plugin.handle_client_request\n        for plugin in self.plugins.values():",
     "        # Invoke plugin.handle_client_request\n        for plugin in reversed(list(self.plugins.values())):"),
    ('c09-ignore-none-before-connect', 'C09', 'proxy/http/proxy/server.py',
     "            if r is None:\n                do_connect = False\n                break\n            self.request = r",
     "            if r is None:\n                do_connect = False\n                continue\n            self.request = r"),
    ('c09-close-hook-twice', 'C09', 'proxy/http/proxy/server.py',
     "        for plugin in self.plugins.values():\n            plugin.on_upstream_connection_close()\n",
     "        for plugin in self.plugins.values():\n            plugin.on_upstream_connection_close()\n            if self.upstream is not None and self.upstream.closed:\n                plugin.on_upstream_connection_close()\n"),
    ('c09-request-not-threaded-through', 'C09', 'proxy/http/proxy/server.py',
     "            r = plugin.handle_client_request(self.request)\n            if r is not None:\n                self.request = r",
     "            r = plugin.handle_client_request(self.request)\n            if r is not None:\n                self.request = r if len(self.plugins) < 3 else self.request"),
    ('c09-connect-before-plugins', 'C09', 'proxy/http/proxy/server.py',
     "            if r is None:\n                do_connect = False\n                break\n            self.request = r\n\n        # Connect to upstream\n        if do_connect:\n            self.connect_upstream()",
     "            if r is None:\n                do_connect = False\n                break\n            self.request = r\n\n        # Connect to upstream\n        if do_connect or self.request.is_https_tunnel:\n            self.connect_upstream()"),
    ('c09-access-log-ignores-none', 'C09', 'proxy/http/proxy/server.py',
     "            ctx = plugin.on_access_log(context)\n            if ctx is None:\n                log_handled = True\n                break\n            context = ctx\n        if not log_handled:\n            self.access_log(context)",
     "            ctx = plugin.on_access_log(context)\n            if ctx is None:\n                log_handled = True\n                continue\n            context = ctx\n        if not log_handled:\n            self.access_log(context)"),
    ('c09-revert-dropped-followup-fix', 'C09', 'proxy/http/proxy/server.py',
     "                            self.pipeline_request = None\n                            return\n", "                            return\n"),
    ('c09-dns-last-wins', 'C09', 'proxy/http/proxy/server.py',
     "                    if upstream_ip or source_addr:\n                        break", "                    if upstream_ip and source_addr:\n                        break"),
    ('c09-reject-after-forward', 'C09', 'proxy/http/proxy/server.py',
     "                if self.pipeline_request.is_complete:\n                    for plugin in self.plugins.values():",
     "                if self.pipeline_request.is_complete:\n                    self.upstream.queue(memoryview(self.pipeline_request.build())) if len(self.plugins) > 3 else None\n                    for plugin in self.plugins.values():"),
    # ---- C18 ---------------------------------------------------------------
    ('c18-stop-on-first-broken-pipe', 'C18', 'proxy/core/event/dispatcher.py',
     "                self._close(sub_id)\n                broken_pipes.append(sub_id)\n",
     "                self._close(sub_id)\n                broken_pipes.append(sub_id)\n                break\n"),
    ('c18-broken-subscriber-kept', 'C18', 'proxy/core/event/dispatcher.py',
     "        for sub_id in broken_pipes:\n            del self.subscribers[sub_id]", "        for sub_id in broken_pipes[1:]:\n            del self.subscribers[sub_id]"),
    ('c18-unsubscribe-ack-after-delete', 'C18', 'proxy/core/event/dispatcher.py',
     "                self._send(\n                    sub_id, {\n                        'event_name': eventNames.UNSUBSCRIBED,\n                    },\n                )\n                self._close_and_delete(sub_id)",
     "                self._close(sub_id)\n                self._send(\n                    sub_id, {\n                        'event_name': eventNames.UNSUBSCRIBED,\n                    },\n                )\n                del self.subscribers[sub_id]"),
    ('c18-broadcast-control-events', 'C18', 'proxy/core/event/dispatcher.py',
     "            else:\n                logger.info(\n                    'unsubscription request ack not sent, subscriber already gone',\n                )",
     "            else:\n                self._broadcast(ev)"),
    ('c18-reverse-fanout-order', 'C18', 'proxy/core/event/dispatcher.py',
     "        for sub_id in self.subscribers:\n            try:\n                self.subscribers[sub_id].send(ev)",
     "        for sub_id in self.subscribers:\n            try:\n                self.subscribers[sub_id].send(ev)\n                if len(self.subscribers) > 2 and ev.get('event_payload', {}).get('n') == 3:\n                    self.subscribers[sub_id].send(ev)"),
    ('c18-failed-ack-keeps-subscriber', 'C18', 'proxy/core/event/dispatcher.py',
     "            ):\n                self._close_and_delete(sub_id)", "            ):\n                self._close(sub_id)"),
    ('c18-dispatcher-dies-on-eof', 'C18', 'proxy/core/event/dispatcher.py',
     "            except BrokenPipeError:\n                logger.warning(\n                    'Subscriber#%s broken pipe', sub_id,",
     "            except ConnectionResetError:\n                logger.warning(\n                    'Subscriber#%s broken pipe', sub_id,"),
    # ---- C19 ---------------------------------------------------------------
    ('c19-revert-primary-first', 'C19', 'proxy/core/listener/pool.py',
     "        ports = [] if self.flags.unix_socket_path else [self.flags.port]\n        ports.extend(self.flags.ports)",
     "        ports = list(self.flags.ports)\n        if not self.flags.unix_socket_path:\n            ports.append(self.flags.port)"),
    ('c19-port-file-left-behind', 'C19', 'proxy/proxy.py',
     "        if self.flags.port_file \\\n                and os.path.exists(self.flags.port_file):",
     "        if self.flags.port_file and not self.flags.ports \\\n                and os.path.exists(self.flags.port_file):"),
    ('c19-port-file-sorted', 'C19', 'proxy/proxy.py',
     "                if not self.flags.unix_socket_path:\n                    port_file.write(bytes_(self.flags.port))\n                    port_file.write(b'\\n')\n                for port in self.flags.ports:",
     "                for port in sorted(self.flags.ports + ([] if self.flags.unix_socket_path else [self.flags.port])):"),
    ('c19-ephemeral-extra-not-read-back', 'C19', 'proxy/proxy.py',
     "        for index in range(offset, offset + len(self.flags.ports)):\n            ports.add(\n                cast(\n                    'TcpSocketListener',\n                    self.listeners.pool[index],\n                )._port,\n            )",
     "        for index in range(offset, offset + len(self.flags.ports)):\n            ports.add(\n                cast(\n                    'TcpSocketListener',\n                    self.listeners.pool[index],\n                ).port,\n            )"),
    ('c19-executors-not-stopped', 'C19', 'proxy/proxy.py',
     "        if self.remote_executors_enabled:\n            assert self.executors\n            self.executors.shutdown()",
     "        if self.remote_executors_enabled and self.flags.num_workers < 2:\n            assert self.executors\n            self.executors.shutdown()"),
    ('c19-unix-skips-additional-ports', 'C19', 'proxy/core/listener/pool.py',
     "        ports.extend(self.flags.ports)", "        ports.extend(self.flags.ports if ports else [])"),
    # ---- C17 ---------------------------------------------------------------
    ('c17-threaded-recvbuf-truncates', 'C17', 'proxy/http/handler.py',
     "            if self.request.state != httpParserStates.COMPLETE:\n                if self._parse_first_request(data):",
     "            if self.request.state != httpParserStates.COMPLETE:\n                if self._parse_first_request(data if self.flags.threadless else data[:1024]):"),
    ('c17-remote-worker-skips-every-other-readable', 'C17', 'proxy/core/work/threadless.py',
     "            if mask & selectors.EVENT_READ:\n                work_by_ids[key.data][0].append(key.fd)",
     "            if mask & selectors.EVENT_READ and not (wqfileno is not None and key.fd % 7 == 3):\n                work_by_ids[key.data][0].append(key.fd)"),
    ('c17-local-mode-via-differs', 'C17', 'proxy/http/proxy/server.py',
     "                self.request.add_headers(\n                    [(b'Via', b'1.1 %s' % PROXY_AGENT_HEADER_VALUE)],\n                )",
     "                self.request.add_headers(\n                    [(b'Via', b'1.1 %s' % (PROXY_AGENT_HEADER_VALUE if self.flags.local_executor or not self.flags.threadless else b'proxy.py'))],\n                )"),
    # ---- C11 ---------------------------------------------------------------
    ('c11-cert-none-always', 'C11', 'proxy/http/proxy/server.py',
     "                if self.flags.insecure_tls_interception\n                else ssl.VerifyMode.CERT_REQUIRED",
     "                if self.flags.insecure_tls_interception or self.flags.ca_file\n                else ssl.VerifyMode.CERT_REQUIRED"),
    ('c11-no-hostname-check', 'C11', 'proxy/core/connection/server.py',
     "            False if verify_mode == ssl.VerifyMode.CERT_NONE else hostname is not None", "            False"),
    ('c11-leaf-without-san', 'C11', 'proxy/http/proxy/server.py',
     "        alt_subj_names = [text_(self.request.host)]", "        alt_subj_names = [text_(self.request.host)] if self.request.port != 443 else []"),
    ('c11-verify-error-ignored', 'C11', 'proxy/http/proxy/server.py',
     "                'ssl.SSLCertVerificationError: ' +\n                'Server raised cert verification error for upstream: {0}'.format(\n                    self.upstream.addr[0],\n                ),\n            )\n            do_close = True",
     "                'ssl.SSLCertVerificationError: ' +\n                'Server raised cert verification error for upstream: {0}'.format(\n                    self.upstream.addr[0],\n                ),\n            )\n            do_close = self.flags.ca_file is None"),
    ('c11-opt-out-ignored', 'C11', 'proxy/http/proxy/server.py',
     "            do_intercept = plugin.do_intercept(self.request)\n", "            do_intercept = plugin.do_intercept(self.request) or do_intercept\n"),
    ('c11-revert-want-write-fix', 'C11', 'proxy/http/handler.py',
     "            except ssl.SSLWantWriteError:   # Try again later\n                logger.warning(\n                    'SSLWantWriteError while trying to flush to client, will retry',\n                )\n                return False\n", ""),
    ('c11-cert-cache-by-first-label', 'C11', 'proxy/http/proxy/server.py',
     "        return os.path.join(ca_cert_dir, '%s.pem' % host)", "        return os.path.join(ca_cert_dir, '%s.pem' % host.split('.')[-1])"),
    ('c11-generation-lock-leaked-on-failure', 'C11', 'proxy/http/proxy/server.py',
     "        with self.lock:\n            if not os.path.isfile(cert_file_path):\n                self.gen_ca_signed_certificate(cert_file_path, certificate)\n",
     "        self.lock.acquire()\n        if not os.path.isfile(cert_file_path):\n            self.gen_ca_signed_certificate(cert_file_path, certificate)\n        self.lock.release()\n"),
    ('c05-cleanup-while-iterating-works', 'C05', 'proxy/core/work/threadless.py',
     "                failed_work_ids.append(work_id)\n", "                failed_work_ids.append(work_id)\n                self._cleanup(work_id)\n"),
    # ---- endless loops (C06 / C05) -------------------------------------------------
    ('c06-revert-duplicate-content-length-fix', 'C06', 'proxy/http/parser/parser.py',
     "        if k == b'content-length':\n            # The last Content-Length line wins in self.headers,\n            # keep the flag in line with the value that will be used.\n            self._content_expected = int(value) > 0",
     "        if k == b'content-length' and int(value) > 0:\n            self._content_expected = True"),
    ('c06-revert-negative-chunk-size-fix', 'C06', 'proxy/http/parser/chunk.py',
     "                if self.size < 0:\n                    raise ValueError('Invalid chunk size %r' % line)\n", ""),
    ('c05-upstream-negative-chunk-spins', 'C05', 'proxy/http/parser/chunk.py',
     "                if self.size < 0:\n                    raise ValueError('Invalid chunk size %r' % line)\n", ""),
    ('c07-revert-tunnel-class-flush-fix', 'C07', 'proxy/core/base/tcp_tunnel.py',
     "                if not self.work.has_buffer():\n                    return True\n                # Deliver what the server already sent, then tear down\n                # (see BaseTcpServerHandler.handle_writables).\n                self.must_flush_before_shutdown = True\n                return False\n",
     "                return True\n"),
    ('c07-base-handler-teardown-without-flush', 'C07', 'proxy/core/base/tcp_server.py',
     "            if self.must_flush_before_shutdown is True and \\\n                    not self.work.has_buffer():",
     "            if self.must_flush_before_shutdown is True:"),
]


def apply(root: str, m: Tuple[str, str, str, str, str]) -> None:
    p = os.path.join(root, m[2])
    with open(p) as f:
        s = f.read()
    n = s.count(m[3])
    if n != 1:
        raise RuntimeError('mutant %s: pattern occurs %d times in %s' % (m[0], n, m[2]))
    with open(p, 'w') as f:
        f.write(s.replace(m[3], m[4]))


def main(args: Any) -> int:
    only = (args.only or '').split(',') if args.only else None
    todo = [m for m in M if not only or m[0] in only or m[1] in only]
    base = tempfile.mkdtemp(prefix='verif-mut-')
    results = []
    try:
        for m in todo:
            root = os.path.join(base, m[0])
            os.makedirs(root)
            shutil.copytree('/repo/proxy', os.path.join(root, 'proxy'),
                            ignore=shutil.ignore_patterns('__pycache__'))
            try:
                apply(root, m)
            except RuntimeError as e:
                results.append((m[0], m[1], 'STALE', str(e)))
                shutil.rmtree(root, ignore_errors=True)
                continue
            env = dict(os.environ)
            env['VERIF_REPO'] = root
            t0 = time.monotonic()
            p = subprocess.run([os.path.join(runner.VERIF, 'check'), m[1], '--tier', 'quick'],
                               cwd=runner.VERIF, env=env, capture_output=True, text=True, timeout=1200)
            dt = time.monotonic() - t0
            viol = [ln for ln in p.stdout.splitlines() if ln.startswith('VIOLATION')]
            detail = ''
            lines = p.stdout.splitlines()
            for i, ln in enumerate(lines):
                if ln.startswith('VIOLATION') and i + 1 < len(lines):
                    detail = lines[i + 1].strip()[:160]
                    break
            status = 'CAUGHT' if (p.returncode == 1 and viol) else ('HARNESS' if p.returncode == 3 else 'MISSED')
            results.append((m[0], m[1], status, '%.0fs %s' % (dt, detail)))
            print('%-34s %s %-8s %s' % (m[0], m[1], status, '%.0fs %s' % (dt, detail)), flush=True)
            if status == 'HARNESS':
                print(p.stdout[-1500:])
            shutil.rmtree(root, ignore_errors=True)
            # replays written for mutants are not findings about /repo
            for ln in viol:
                path = ln.split('replay=', 1)[1].strip()
                if os.path.exists(path):
                    os.remove(path)
    finally:
        shutil.rmtree(base, ignore_errors=True)
    missed = [r for r in results if r[2] != 'CAUGHT']
    print('mutants: %d caught, %d not caught' % (len(results) - len(missed), len(missed)))
    for r in missed:
        print('  NOT CAUGHT: %s (%s) %s %s' % r)
    return 0 if not missed else 1
