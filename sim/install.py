"""Install the simulator's seams.  Must run before `proxy` is imported, because
some names are bound at import time (`class Acceptor(multiprocessing.Process)`,
`from multiprocessing.reduction import recv_handle`, `from uuid import uuid4`).

/repo is not modified: every seam is a standard-library name.
"""
import os
import sys

_installed = False


def repo_path() -> str:
    return os.environ.get('VERIF_REPO', '/repo')


def install() -> None:
    global _installed
    if _installed:
        return
    _installed = True
    if 'proxy' in sys.modules:
        raise RuntimeError('sim.install() must run before proxy is imported')

    # import everything that binds the original names first
    import asyncio
    import logging
    import multiprocessing
    import multiprocessing.connection
    import multiprocessing.reduction
    import random
    import selectors
    import socket
    import ssl
    import threading
    import time
    import uuid
    import concurrent.futures   # noqa: F401
    import h11      # noqa: F401

    from . import kernel, loop, mp, selector, sockets

    # sockets -----------------------------------------------------------
    socket.socket = sockets.SimSocket           # type: ignore[misc]
    socket.dup = sockets.sim_dup                # type: ignore[assignment]
    socket.getaddrinfo = sockets.sim_getaddrinfo    # type: ignore[assignment]
    os.close = sockets.sim_os_close

    # readiness -----------------------------------------------------------
    selectors.DefaultSelector = selector.sim_default_selector   # type: ignore[misc,assignment]

    # clock -----------------------------------------------------------------
    _real_time = time.time
    _real_sleep = time.sleep

    def sim_time() -> float:
        w = kernel.World.active
        if w is None:
            return _real_time()
        return kernel.EPOCH + w.now

    def sim_sleep(dt: float) -> None:
        w = kernel.World.active
        if w is None or w.current is None:
            return _real_sleep(dt)
        w.sleep(dt)

    time.time = sim_time        # type: ignore[assignment]
    time.sleep = sim_sleep      # type: ignore[assignment]
    # real child processes (the openssl binary run by proxy/common/pki.py) are waited for in real time: subprocess's
    # wait loop must not advance the virtual clock while the child runs
    import subprocess
    import types
    subprocess.time = types.SimpleNamespace(sleep=_real_sleep, monotonic=time.monotonic, time=_real_time)   # type: ignore[attr-defined]

    # threads / processes ----------------------------------------------------
    threading.Thread = kernel.SimThread     # type: ignore[misc,assignment]
    multiprocessing.Process = mp.SimProcess     # type: ignore[misc,assignment]
    multiprocessing.Pipe = mp.sim_pipe          # type: ignore[assignment]
    multiprocessing.Queue = mp.SimQueue         # type: ignore[assignment]
    multiprocessing.Lock = mp.SimLock           # type: ignore[assignment]
    multiprocessing.Event = mp.SimEvent         # type: ignore[assignment]
    multiprocessing.reduction.send_handle = mp.sim_send_handle    # type: ignore[assignment]
    multiprocessing.reduction.recv_handle = mp.sim_recv_handle    # type: ignore[assignment]

    # TLS: real OpenSSL over simulated sockets -----------------------------------------
    from . import tls
    ssl.SSLContext.sslsocket_class = tls.SimTLSSocket       # type: ignore[assignment]

    # asyncio ------------------------------------------------------------------
    asyncio.set_event_loop_policy(loop.SimPolicy())

    # randomness ----------------------------------------------------------------
    _real_choice = random.choice

    def sim_choice(seq):    # type: ignore[no-untyped-def]
        w = kernel.World.active
        if w is None:
            return _real_choice(seq)
        i = w.tape.draw(len(seq), 'random.choice')
        w.ev(w.ename(), 'random.choice', '%d/%d' % (i, len(seq)))
        return seq[i]

    random.choice = sim_choice      # type: ignore[assignment]

    _real_uuid4 = uuid.uuid4

    def sim_uuid4():    # type: ignore[no-untyped-def]
        w = kernel.World.active
        if w is None:
            return _real_uuid4()
        w.uuid_seq += 1
        return uuid.UUID(int=(0x5eed << 100) | w.uuid_seq)

    uuid.uuid4 = sim_uuid4      # type: ignore[assignment]

    _real_getpid = os.getpid

    def sim_getpid() -> int:
        w = kernel.World.active
        if w is None or w.current is None or w.current.proc is None:
            return _real_getpid()
        return w.current.proc.pid

    os.getpid = sim_getpid

    # the repository ---------------------------------------------------------------
    rp = repo_path()
    if rp not in sys.path:
        sys.path.insert(0, rp)
    logging.disable(logging.CRITICAL)
    import proxy    # noqa: F401
    pf = os.path.realpath(proxy.__file__)
    if not pf.startswith(os.path.realpath(rp) + os.sep):
        raise RuntimeError('proxy imported from %s, not from %s' % (pf, rp))
    import proxy.proxy as pp
    # POSIX signals are not modelled
    pp.Proxy._register_signals = lambda self: None     # type: ignore[assignment]
