"""Simulation worker process: runs a slice of the seed space of one property.

Invoked as  python -m sim.worker '<job json>'  with PYTHONHASHSEED pinned by
the parent.  Writes one JSON document to job['out'].
"""
import faulthandler
import gc
import hashlib
import json
import os
import re
import sys
import time
import traceback
from typing import Any, Dict, FrozenSet, List, Optional, Tuple


def hash64(*parts: Any) -> int:
    h = hashlib.blake2b(':'.join(str(p) for p in parts).encode(), digest_size=8)
    return int.from_bytes(h.digest(), 'big') >> 1


def _run(mod: Any, cfg: dict, seed: Optional[int] = None, choices: Optional[List[int]] = None,
         forbid: FrozenSet[str] = frozenset()) -> Tuple[Any, Any]:
    from .tape import Tape
    tape = Tape(seed) if choices is None else Tape(replay=choices)
    res = mod.run_one(tape, cfg, forbid)
    return res, tape


def kf_matches(kf: dict, fail: Tuple[str, str, str]) -> bool:
    if kf.get('status') != 'open':
        return False
    if re.fullmatch(kf['oracle'], fail[0]) is None:
        return False
    return re.search(kf['signature'], fail[1]) is not None


def triage(mod: Any, cfg: dict, choices: List[int], res: Any, kfs: List[dict]) -> Dict[str, Any]:
    """Classify a failing run: flaky (harness error), known finding, violation."""
    fail = res.first()
    # 1. does it replay exactly, in this process?
    res2, _ = _run(mod, cfg, choices=choices)
    f2 = res2.first()
    if f2 is None or f2[:2] != fail[:2] or res2.digest != res.digest:
        return {'kind': 'flaky', 'fail': fail, 'again': f2, 'd1': res.digest, 'd2': res2.digest}
    # 2. but-for attribution to an open known finding
    cands = [kf for kf in kfs if kf.get('status') == 'open' and kf['trigger']['feature'] in res.features]
    for kf in cands:
        if not kf_matches(kf, fail):
            continue
        feat = kf['trigger']['feature']
        res3, _ = _run(mod, cfg, choices=choices, forbid=frozenset([feat]))
        if res3.first() is None:
            return {'kind': 'known', 'kf': kf['id'], 'fail': fail}
    # several known defects in one run: it must pass once all of their
    # trigger features (and nothing else) are neutralised, and the failure
    # must match one of them
    if len(cands) > 1 and any(kf_matches(kf, fail) for kf in cands):
        feats = frozenset(kf['trigger']['feature'] for kf in cands)
        res3, _ = _run(mod, cfg, choices=choices, forbid=feats)
        if res3.first() is None:
            first = [kf for kf in cands if kf_matches(kf, fail)][0]
            return {'kind': 'known', 'kf': first['id'], 'fail': fail}
    return {'kind': 'violation', 'fail': fail}


def same_failure(mod: Any, cfg: dict, choices: List[int], want: Tuple[str, str], kfs: List[dict]) -> Optional[Any]:
    """Run `choices`; return the result if it fails the same oracle with the
    same signature and is not attributable to a known finding."""
    try:
        res, tape = _run(mod, cfg, choices=choices)
    except Exception:
        return None
    f = res.first()
    if f is None or (f[0], f[1]) != want:
        return None
    if kfs:
        tr = triage(mod, cfg, tape.choices, res, kfs)
        if tr['kind'] != 'violation':
            return None
    res._choices = tape.choices      # type: ignore[attr-defined]
    return res


def shrink(mod: Any, cfg: dict, choices: List[int], want: Tuple[str, str], kfs: List[dict],
           budget_s: float = 20.0) -> List[int]:
    """Tape reduction: delete spans, zero entries, halve values; keep a
    candidate only if it still fails the same oracle with the same signature."""
    t0 = time.perf_counter()
    best = list(choices)

    def ok(c: List[int]) -> Optional[List[int]]:
        r = same_failure(mod, cfg, c, want, kfs)
        if r is None:
            return None
        used = r._choices
        return list(used)

    def out_of_time() -> bool:
        return time.perf_counter() - t0 > budget_s

    # truncate to what was actually consumed
    r = ok(best)
    if r is not None and len(r) <= len(best):
        best = r
    improved = True
    while improved and not out_of_time():
        improved = False
        # delete spans
        n = len(best)
        span = max(1, n // 2)
        while span >= 1 and not out_of_time():
            i = 0
            while i < len(best) and not out_of_time():
                cand = best[:i] + best[i + span:]
                r = ok(cand)
                if r is not None and len(r) < len(best):
                    best = r
                    improved = True
                else:
                    i += span
            span //= 2
        # zero / halve entries
        i = 0
        while i < len(best) and not out_of_time():
            v = best[i]
            if v != 0:
                for nv in (0, v // 2, v - 1):
                    if nv == v or nv < 0:
                        continue
                    cand = best[:i] + [nv] + best[i + 1:]
                    r = ok(cand)
                    if r is not None and (len(r) < len(best) or sum(r) < sum(best)):
                        best = r
                        improved = True
                        break
            i += 1
    return best


def main() -> None:
    arg = sys.argv[1]
    if arg.startswith('@'):
        with open(arg[1:]) as f:
            job = json.load(f)
    else:
        job = json.loads(arg)
    os.makedirs(job['scratch'], exist_ok=True)
    os.environ['HOME'] = job['scratch']
    os.environ['VERIF_SCRATCH'] = job['scratch']
    # uuid4() is deterministic inside a World, so temporary file names made from it (proxy/common/pki.py) would
    # collide between concurrently running workers: every worker gets its own temporary directory
    import tempfile
    os.makedirs(os.path.join(job['scratch'], 'tmp'), exist_ok=True)
    os.environ['TMPDIR'] = os.path.join(job['scratch'], 'tmp')
    tempfile.tempdir = None
    faulthandler.enable()
    sys.setrecursionlimit(10000)
    out: Dict[str, Any] = {'ok': False}
    try:
        from .install import install
        install()
        from . import props
        mod = props.load(job['prop'])
        if hasattr(mod, 'setup_worker'):
            mod.setup_worker(job)
        gc.collect()
        gc.freeze()
        gc.disable()
        if job['mode'] == 'batch':
            out = batch(mod, job)
        elif job['mode'] == 'replay':
            out = replay(mod, job)
        else:
            raise ValueError(job['mode'])
        out['ok'] = True
    except BaseException as e:   # noqa
        out['ok'] = False
        out['error'] = ''.join(traceback.format_exception(type(e), e, e.__traceback__))
    with open(job['out'] + '.tmp', 'w') as f:
        json.dump(out, f, default=repr)
    os.replace(job['out'] + '.tmp', job['out'])
    sys.stdout.flush()
    os._exit(0)


def batch(mod: Any, job: dict) -> Dict[str, Any]:
    cfg = job['cfg']
    kfs = job.get('kfs', [])
    t0 = time.perf_counter()
    deadline = job['deadline_s']
    watchdog = job.get('watchdog_s', 60)
    agg: Dict[str, Any] = {
        'runs': 0, 'nontrivial': 0, 'digests': [], 'stats': {}, 'vtime': 0.0, 'events': 0,
        'steps': 0, 'known': {}, 'violations': [], 'flaky': [], 'samples': [], 'states': [],
        'first_index': None, 'last_index': None, 'det': {}, 'errors': [], 'features': {},
        'max_run_s': 0.0,
    }
    digests = set()
    states = set()
    stats: Dict[str, int] = {}
    feats: Dict[str, int] = {}
    indices = [job['start'] + j * job['stride'] for j in range(job['count'])]
    det_idx = set(job.get('det_indices', []))
    todo = indices + [i for i in job.get('det_indices', []) if i not in indices]
    for i in todo:
        is_det_only = i not in indices
        if not is_det_only and time.perf_counter() - t0 > deadline:
            break
        seed = hash64(job['base_seed'], job['prop'], i)
        faulthandler.dump_traceback_later(watchdog, exit=True)
        r0 = time.perf_counter()
        try:
            res, tape = _run(mod, cfg, seed=seed)
        except Exception as e:
            agg['errors'].append({'index': i, 'seed': seed,
                                  'tb': ''.join(traceback.format_exception(type(e), e, e.__traceback__))[-3000:]})
            if len(agg['errors']) >= 3:
                break
            continue
        finally:
            faulthandler.cancel_dump_traceback_later()
        dt = time.perf_counter() - r0
        if dt > agg['max_run_s']:
            agg['max_run_s'] = dt
        if i in det_idx or is_det_only:
            agg['det'][str(i)] = res.digest
        if is_det_only:
            continue
        agg['runs'] += 1
        if agg['first_index'] is None:
            agg['first_index'] = i
        agg['last_index'] = i
        agg['vtime'] += res.vtime
        agg['events'] += res.events
        agg['steps'] += res.steps
        for k, v in res.stats.items():
            stats[k] = stats.get(k, 0) + v
        for ft in res.features:
            feats[ft] = feats.get(ft, 0) + 1
        if res.nontrivial:
            agg['nontrivial'] += 1
            digests.add(res.digest)
        states |= res.states
        if len(agg['samples']) < 2 and res.nontrivial:
            agg['samples'].append({'index': i, 'seed': seed, 'scenario': res.scenario,
                                   'event_log_head': res.log[:25], 'digest': res.digest})
        if res.failures:
            faulthandler.dump_traceback_later(watchdog * 4, exit=True)
            try:
                tr = triage(mod, cfg, tape.choices, res, kfs)
            finally:
                faulthandler.cancel_dump_traceback_later()
            if tr['kind'] == 'known':
                agg['known'][tr['kf']] = agg['known'].get(tr['kf'], 0) + 1
            elif tr['kind'] == 'flaky':
                agg['flaky'].append({'index': i, 'seed': seed, 'info': repr(tr)[:500]})
                if len(agg['flaky']) >= 3:
                    break
            else:
                agg['violations'].append({
                    'index': i, 'seed': seed, 'choices': tape.choices, 'fail': list(res.first()),
                    'digest': res.digest, 'scenario': res.scenario, 'log': res.log[:60],
                    'features': sorted(res.features),
                })
                if len(agg['violations']) >= 3:
                    break
        if agg['runs'] % 50 == 0:
            gc.collect()
    agg['digests'] = sorted(digests)
    agg['states'] = sorted(states)
    agg['stats'] = stats
    agg['features'] = feats
    agg['wall_s'] = time.perf_counter() - t0
    return agg


def replay(mod: Any, job: dict) -> Dict[str, Any]:
    """Re-execute a recorded run; optionally minimise it first."""
    cfg = job['cfg']
    kfs = job.get('kfs', [])
    choices = job['choices']
    want = tuple(job['want']) if job.get('want') else None
    faulthandler.dump_traceback_later(job.get('watchdog_s', 120) * 4, exit=True)
    res, tape = _run(mod, cfg, choices=choices)
    f = res.first()
    out: Dict[str, Any] = {'fail': list(f) if f else None, 'digest': res.digest,
                           'scenario': res.scenario, 'log': res.log[:80], 'choices': tape.choices,
                           'features': sorted(res.features)}
    if f is not None and kfs:
        tr = triage(mod, cfg, tape.choices, res, kfs)
        out['triage'] = tr['kind']
        out['kf'] = tr.get('kf')
    if job.get('shrink') and f is not None and (want is None or (f[0], f[1]) == want):
        w2 = (f[0], f[1])
        small = shrink(mod, cfg, tape.choices, w2, kfs, job.get('shrink_budget_s', 20.0))
        r2, t2 = _run(mod, cfg, choices=small)
        f2 = r2.first()
        if f2 is not None and (f2[0], f2[1]) == w2:
            out['min'] = {'choices': t2.choices, 'fail': list(f2), 'digest': r2.digest,
                          'scenario': r2.scenario, 'log': r2.log[:80],
                          'features': sorted(r2.features)}
    faulthandler.cancel_dump_traceback_later()
    return out


if __name__ == '__main__':
    main()
