"""Parent side of a check: fan out seed slices to worker processes, merge,
verify determinism, attribute known findings, minimise and replay violations,
write the evidence file, decide the exit code.

Exit codes: 0 property held on everything explored (known findings are
printed), 1 VIOLATION, 3 harness error (never a verdict).
"""
import json
import os
import shutil
import subprocess
import sys
import tempfile
import time
from typing import Any, Dict, List, Optional, Tuple

VERIF = os.path.dirname(os.path.dirname(os.path.abspath(__file__)))
PY = os.environ.get('VERIF_PYTHON', '/venv/bin/python')
SIM_VERSION = 1


def load_kfs(pid: str) -> List[dict]:
    p = os.path.join(VERIF, 'known_findings.json')
    if not os.path.exists(p):
        return []
    with open(p) as f:
        doc = json.load(f)
    return [k for k in doc.get('findings', []) if k.get('property') == pid]


def _spawn(job: dict, hashseed: int) -> subprocess.Popen:     # type: ignore[type-arg]
    env = dict(os.environ)
    env['PYTHONHASHSEED'] = str(hashseed)
    env['PYTHONPATH'] = VERIF + os.pathsep + env.get('PYTHONPATH', '')
    env['PYTHONDONTWRITEBYTECODE'] = '1'
    env.pop('PYTHONWARNINGS', None)
    # the job goes through a file: a replay job carries the whole choice tape, which can exceed the argv limit
    jf = job['out'] + '.job'
    os.makedirs(os.path.dirname(jf), exist_ok=True)
    with open(jf, 'w') as f:
        json.dump(job, f)
    return subprocess.Popen([PY, '-W', 'ignore', '-m', 'sim.worker', '@' + jf],
                            cwd=VERIF, env=env, stdout=subprocess.PIPE, stderr=subprocess.PIPE)


def _wait(procs: List[Tuple[dict, Any]], timeout: float) -> List[Tuple[dict, Optional[dict], str]]:
    t_end = time.monotonic() + timeout
    res = []
    for job, p in procs:
        left = max(1.0, t_end - time.monotonic())
        try:
            so, se = p.communicate(timeout=left)
        except subprocess.TimeoutExpired:
            p.kill()
            so, se = p.communicate()
            res.append((job, None, 'TIMEOUT\n' + se.decode('utf-8', 'replace')[-4000:]))
            continue
        doc = None
        if os.path.exists(job['out']):
            try:
                with open(job['out']) as f:
                    doc = json.load(f)
            except Exception as e:   # noqa
                doc = None
                se += ('\nbad out file: %r' % e).encode()
        res.append((job, doc, se.decode('utf-8', 'replace')[-6000:]))
    return res


def run_replay_job(pid: str, cfg: dict, choices: List[int], hashseed: int, kfs: List[dict],
                   scratch: str, shrink: bool = False, want: Optional[List[str]] = None,
                   shrink_budget: float = 20.0, tag: str = 'r') -> Tuple[Optional[dict], str]:
    job = {'mode': 'replay', 'prop': pid, 'cfg': cfg, 'choices': choices, 'kfs': kfs,
           'scratch': os.path.join(scratch, tag), 'out': os.path.join(scratch, tag + '.json'),
           'shrink': shrink, 'want': want, 'shrink_budget_s': shrink_budget, 'watchdog_s': 120 + int(shrink_budget)}
    p = _spawn(job, hashseed)
    (j, doc, err), = _wait([(job, p)], 600)
    if doc is not None and not doc.get('ok'):
        return None, doc.get('error', '') + err
    return doc, err


def hashseed_for(mod: Any, index: int) -> int:
    n = getattr(mod, 'HASHSEEDS', 1)
    return index % n if n > 1 else 0


def check(pid: str, tier: str, base_seed: int, workers: int, budget_s: Optional[float],
          runs: Optional[int]) -> int:
    sys.path.insert(0, VERIF)
    from sim import props
    mod = props.load(pid)
    tcfg = dict(mod.TIERS[tier])
    n_runs = runs if runs is not None else tcfg.pop('runs')
    tcfg.pop('runs', None)
    budget = budget_s if budget_s is not None else tcfg.pop('budget_s')
    tcfg.pop('budget_s', None)
    watchdog = tcfg.pop('watchdog_s', 60)
    cfg = tcfg
    kfs = load_kfs(pid)
    os.makedirs(os.path.join(VERIF, '.work'), exist_ok=True)
    scratch = tempfile.mkdtemp(prefix='%s-%s-' % (pid, tier), dir=os.path.join(VERIF, '.work'))
    t0 = time.monotonic()
    rc = 3
    try:
        rc = _check(mod, pid, tier, base_seed, workers, budget, n_runs, watchdog, cfg, kfs, scratch, t0)
    finally:
        shutil.rmtree(scratch, ignore_errors=True)
    return rc


def _check(mod: Any, pid: str, tier: str, base_seed: int, workers: int, budget: float,
           n_runs: int, watchdog: int, cfg: dict, kfs: List[dict], scratch: str, t0: float) -> int:
    nh = getattr(mod, 'HASHSEEDS', 1)
    workers = max(1, min(workers, n_runs))
    if nh > 1:
        workers = max(nh, workers - workers % nh)
    per = (n_runs + workers - 1) // workers
    procs = []
    for k in range(workers):
        nxt = (k + 1) % workers
        job = {
            'mode': 'batch', 'prop': pid, 'tier': tier, 'cfg': cfg, 'base_seed': base_seed,
            'start': k, 'stride': workers, 'count': per, 'deadline_s': budget,
            'watchdog_s': watchdog, 'kfs': kfs,
            'scratch': os.path.join(scratch, 'w%d' % k),
            'out': os.path.join(scratch, 'w%d.json' % k),
            # cross-process determinism: re-run the neighbour's first seed(s)
            'det_indices': ([k, nxt] if nh <= 1 or (nxt % nh) == (k % nh) else [k]),
        }
        procs.append((job, _spawn(job, k % nh if nh > 1 else 0)))
    results = _wait(procs, budget + watchdog * 6 + 120)

    harness_errors: List[str] = []
    agg_stats: Dict[str, int] = {}
    feats: Dict[str, int] = {}
    digests = set()
    states = set()
    runs = nontriv = events = steps = 0
    vtime = 0.0
    known: Dict[str, int] = {}
    viols: List[dict] = []
    samples: List[Any] = []
    det: Dict[str, set] = {}
    worker_wall = 0.0
    max_run = 0.0
    for job, doc, err in results:
        if doc is None:
            harness_errors.append('worker %d died: %s' % (job['start'], err[-3000:]))
            continue
        if not doc.get('ok'):
            harness_errors.append('worker %d failed: %s' % (job['start'], doc.get('error', '')[-3000:]))
            continue
        for e in doc['errors']:
            harness_errors.append('run index %s seed %s raised in harness:\n%s' % (e['index'], e['seed'], e['tb']))
        for fl in doc['flaky']:
            harness_errors.append('run index %s seed %s did not replay: %s' % (fl['index'], fl['seed'], fl['info']))
        runs += doc['runs']
        nontriv += doc['nontrivial']
        events += doc['events']
        steps += doc['steps']
        vtime += doc['vtime']
        digests.update(doc['digests'])
        states.update(doc['states'])
        for k2, v in doc['stats'].items():
            agg_stats[k2] = agg_stats.get(k2, 0) + v
        for k2, v in doc['features'].items():
            feats[k2] = feats.get(k2, 0) + v
        for k2, v in doc['known'].items():
            known[k2] = known.get(k2, 0) + v
        viols.extend(doc['violations'])
        samples.extend(doc['samples'])
        for i, d in doc['det'].items():
            det.setdefault(i, set()).add(d)
        worker_wall = max(worker_wall, doc['wall_s'])
        max_run = max(max_run, doc['max_run_s'])
    det_checked = 0
    for i, ds in det.items():
        det_checked += 1
        if len(ds) > 1:
            harness_errors.append('NONDETERMINISM: index %s produced digests %s in different processes' % (i, sorted(ds)))

    # violations: verify in a fresh process, minimise, write replay file
    reported: List[Tuple[str, str]] = []
    viols.sort(key=lambda v: v['index'])
    seen_sig = set()
    os.makedirs(os.path.join(VERIF, 'replays'), exist_ok=True)
    for v in viols:
        sig = (v['fail'][0], v['fail'][1])
        if sig in seen_sig or len(seen_sig) >= 3:
            continue
        seen_sig.add(sig)
        hs = hashseed_for(mod, v['index'])
        doc, err = run_replay_job(pid, cfg, v['choices'], hs, kfs, scratch, shrink=True,
                                  want=list(sig), tag='v%d' % v['index'],
                                  shrink_budget=float(cfg.get('shrink_budget_s', 20.0 if tier == 'quick' else 90.0)))
        if doc is None:
            harness_errors.append('replay worker failed for index %s: %s' % (v['index'], err[-2000:]))
            continue
        if not doc['fail'] or tuple(doc['fail'][:2]) != sig or doc['digest'] != v['digest']:
            harness_errors.append('violation at index %s (%s) did not reproduce in a fresh process: got %s'
                                  % (v['index'], sig, doc['fail']))
            continue
        final = doc.get('min') or doc
        # confirm the minimised trace once more, fresh process
        doc2, err2 = run_replay_job(pid, cfg, final['choices'], hs, kfs, scratch, tag='c%d' % v['index'])
        if doc2 is None or not doc2['fail'] or tuple(doc2['fail'][:2]) != sig or doc2['digest'] != final['digest']:
            final = doc     # fall back to the unminimised, verified trace
        path = os.path.join(VERIF, 'replays', '%s-%d.json' % (pid, v['seed']))
        with open(path, 'w') as f:
            json.dump({
                'property': pid, 'seed': v['seed'], 'index': v['index'], 'base_seed': base_seed,
                'sim_version': SIM_VERSION, 'pythonhashseed': hs, 'tier': tier, 'tier_config': cfg,
                'choices': final['choices'], 'original_choices_len': len(v['choices']),
                'violation': {'oracle': final['fail'][0], 'signature': final['fail'][1],
                              'message': final['fail'][2]},
                'event_log_digest': final['digest'], 'scenario': final['scenario'],
                'features': final.get('features'), 'event_log_head': final['log'],
            }, f, indent=1, default=repr)
        reported.append((path, '%s %s: %s' % (final['fail'][0], final['fail'][1], final['fail'][2])))

    wall = time.monotonic() - t0
    # evidence ------------------------------------------------------------
    fault_counts = {k[6:]: v for k, v in agg_stats.items() if k.startswith('fault:')}
    probe_counts = {k[6:]: v for k, v in agg_stats.items() if k.startswith('probe:')}
    other = {k: v for k, v in agg_stats.items() if not k.startswith(('fault:', 'probe:'))}
    assumptions = list(getattr(mod, 'ASSUMPTIONS', []))
    zero_probes = [p for p in getattr(mod, 'PROBES', []) if not probe_counts.get(p)]
    if zero_probes:
        assumptions.append('reach gap in this run: probes never hit: %s' % ', '.join(zero_probes))
    ev = {
        'property_id': pid, 'tier': tier, 'seed': base_seed, 'level': 'exploration',
        'coverage': {
            'evaluations': runs,
            'distinct_nontrivial': len(digests),
            'rule': mod.RULE,
            'samples': samples[:3],
            'nontrivial_runs': nontriv,
            'runs_per_hour': int(runs / max(wall, 1e-6) * 3600),
            'simulated_seconds_total': round(vtime, 3),
            'kernel_events_total': events,
            'scheduler_steps_total': steps,
            'distinct_states': len(states),
            'state_measure': getattr(mod, 'STATE_MEASURE', 'not measured for this property'),
            'fault_counts': fault_counts,
            'probe_counts': probe_counts,
            'other_counters': other,
            'scenario_feature_counts': feats,
            'seeds': {'base': base_seed, 'indices': [0, max(0, runs - 1)],
                      'derivation': 'seed_i = blake2b(base:property:i)'},
            'determinism_cross_process_checks': det_checked,
            'workers': workers,
            'max_run_wall_s': round(max_run, 3),
            'components': getattr(mod, 'COMPONENTS', {}),
            'known_findings_attributed': known,
            'technique': 'deterministic simulation with fault injection (seeded search over schedules, faults and workloads)',
        },
        'assumptions': assumptions,
        'wall_s': round(wall, 2),
        'violations': len(reported),
    }
    # evidence is about /repo itself: runs against a scratch copy (mutants, seeded changes: VERIF_REPO) leave no evidence file
    if not harness_errors and runs > 0 and os.environ.get('VERIF_REPO', '/repo') in ('', '/repo'):
        os.makedirs(os.path.join(VERIF, 'evidence'), exist_ok=True)
        with open(os.path.join(VERIF, 'evidence', '%s.json' % pid), 'w') as f:
            json.dump(ev, f, indent=1, default=repr)

    print('%s %s: %d runs (%d non-trivial, %d distinct), %.1f s wall, %.0f sim-s, %d kernel events, faults=%s'
          % (pid, tier, runs, nontriv, len(digests), wall, vtime, events, fault_counts))
    if probe_counts:
        print('  probes: %s' % probe_counts)
    for h in harness_errors:
        print('HARNESS-ERROR: %s' % h)
    kf_by_id = {k['id']: k for k in kfs}
    for kid in sorted(set(known) | {k['id'] for k in kfs if k.get('status') == 'open'}):
        # every listed open finding is named on every run; the count says how many runs of this batch met it
        print('KNOWN-FINDING: property=%s %s [%s, %d runs]' % (pid, kf_by_id[kid]['what_fails'], kid, known.get(kid, 0)))
    for path, msg in reported:
        print('VIOLATION property=%s replay=%s' % (pid, path))
        print('  %s' % msg[:500])
    if reported:
        # a violation that was re-verified and replayed in a fresh process stands, whatever else went wrong
        return 1
    if harness_errors:
        return 3
    if runs == 0:
        print('HARNESS-ERROR: no runs executed')
        return 3
    if viols and not reported:
        return 3
    return 0


def replay_file(path: str) -> int:
    sys.path.insert(0, VERIF)
    from sim import props
    with open(path) as f:
        doc = json.load(f)
    pid = doc['property']
    mod = props.load(pid)
    kfs = load_kfs(pid)
    os.makedirs(os.path.join(VERIF, '.work'), exist_ok=True)
    scratch = tempfile.mkdtemp(prefix='replay-', dir=os.path.join(VERIF, '.work'))
    try:
        out, err = run_replay_job(pid, doc['tier_config'], doc['choices'], doc.get('pythonhashseed', 0),
                                  kfs, scratch)
    finally:
        shutil.rmtree(scratch, ignore_errors=True)
    if out is None:
        print('HARNESS-ERROR: %s' % err[-3000:])
        return 3
    want = doc['violation']
    if out['fail'] is None:
        print('%s replay %s: no violation (recorded: %s %s)' % (pid, path, want['oracle'], want['signature']))
        return 0
    same = out['fail'][0] == want['oracle'] and out['fail'][1] == want['signature']
    print('%s replay: %s %s: %s' % (pid, out['fail'][0], out['fail'][1], out['fail'][2][:800]))
    print('  digest %s (recorded %s)%s' % (out['digest'], doc['event_log_digest'],
                                           '' if out['digest'] == doc['event_log_digest'] else ' DIFFERS'))
    if out.get('triage') == 'known':
        print('KNOWN-FINDING: property=%s %s' % (pid, out.get('kf')))
        return 0
    print('VIOLATION property=%s replay=%s' % (pid, path))
    if os.environ.get('VERIF_SHOW_LOG'):
        for ln in out['log']:
            print('   ', ln)
    return 1 if same else 1
