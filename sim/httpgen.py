"""HTTP/1.x message generation from the tape, and h11-based reference parsing."""
from typing import Any, Dict, List, Optional, Tuple

import h11

from .props import Gen
from .scen import body_bytes, size

TOKEN_NAMES = [b'X-A', b'X-Trace-Id', b'Accept', b'User-Agent', b'Cookie', b'X-b', b'Cache-Control',
               b'accept-language', b'X-UPPER', b'Referer', b'If-None-Match', b'x-z9']
VALUES = [b'1', b'abc', b'a, b;q=0.5', b'"quoted value"', b'x=y; z=w', b'*/*', b'Mozilla/5.0 (X11)',
          b'', b'a:b:c', b'\xc3\xa9t\xc3\xa9']


def casing(tape: Any, name: bytes, label: str = 'case') -> bytes:
    k = tape.draw(4, label)
    if k == 0:
        return name
    if k == 1:
        return name.lower()
    if k == 2:
        return name.upper()
    return bytes(c ^ 0x20 if (65 <= c <= 90 or 97 <= c <= 122) and i % 2 else c for i, c in enumerate(name))


def chunk_encode(tape: Any, g: Gen, body: bytes, allow_ext: bool = True,
                 allow_trailers: bool = True) -> Tuple[bytes, List[int]]:
    """Chunked encoding with a drawn layout.  Returns (bytes, boundaries) where
    boundaries are offsets of interest (after size line, after data, after CRLF)."""
    out = bytearray()
    marks: List[int] = []
    pos = 0
    ext = allow_ext and g.feature('chunk_ext', 0.25)
    n = len(body)
    while pos < n:
        left = n - pos
        k = tape.draw(4, 'chunklayout')
        if k == 0:
            sz = left
        elif k == 1:
            sz = 1
        else:
            sz = 1 + tape.small(left, 'chunksz')
        sz = max(1, min(sz, left))
        line = b'%x' % sz
        if tape.coin(0.2, 'hexcase'):
            line = line.upper()
        if ext and tape.coin(0.5, 'ext-here'):
            line += [b';a=b', b';foo', b'; q="x"'][tape.draw(3, 'extkind')]
        out += line + b'\r\n'
        marks.append(len(out))
        out += body[pos:pos + sz]
        marks.append(len(out))
        out += b'\r\n'
        marks.append(len(out))
        pos += sz
    last = b'0'
    if ext and tape.coin(0.3, 'ext-last'):
        last += b';last'
    out += last + b'\r\n'
    marks.append(len(out))
    if allow_trailers and g.feature('trailers', 0.15):
        for _ in range(1 + tape.draw(2, 'ntrailers')):
            out += [b'X-Trailer: v', b'Checksum:abc', b'x-t: 1 2 3'][tape.draw(3, 'trailer')] + b'\r\n'
    out += b'\r\n'
    return bytes(out), marks


def gen_response(tape: Any, g: Gen, max_body: int, tag: bytes = b'', allow_close: bool = False,
                 allow_interim: bool = True, head: bool = False) -> Tuple[bytes, Dict[str, Any]]:
    """One well-formed response (optionally preceded by interim 1xx responses)."""
    out = bytearray()
    meta: Dict[str, Any] = {'interim': 0}
    if allow_interim and g.feature('interim_1xx', 0.15):
        for _ in range(1 + tape.draw(2, 'ninterim')):
            k = tape.draw(2, 'interimkind')
            out += [b'HTTP/1.1 100 Continue\r\n\r\n',
                    b'HTTP/1.1 103 Early Hints\r\nLink: </s.css>; rel=preload\r\n\r\n'][k]
            meta['interim'] += 1
    status, reason = [(200, b'OK'), (201, b'Created'), (404, b'Not Found'), (500, b'Internal Server Error'),
                      (301, b'Moved Permanently'), (204, b'No Content'), (304, b'Not Modified'),
                      (200, b'')][tape.weighted([6, 1, 1, 1, 1, 1, 1, 1], 'status')]
    version = b'HTTP/1.1' if not tape.coin(0.1, 'http10') else b'HTTP/1.0'
    line = version + b' ' + str(status).encode() + (b' ' + reason if reason else b' ')
    hdrs: List[Tuple[bytes, bytes]] = []
    if tag:
        hdrs.append((b'X-Tag', tag))
    for _ in range(tape.draw(4, 'nhdr')):
        nm = casing(tape, TOKEN_NAMES[tape.draw(len(TOKEN_NAMES), 'hname')])
        if nm.lower() in [h[0].lower() for h in hdrs]:
            continue
        hdrs.append((nm, VALUES[tape.draw(len(VALUES) - 1, 'hval')]))
    nobody = status in (204, 304) or head
    body = b''
    framing = 'none'
    if nobody:
        if status == 304 and tape.coin(0.3, '304cl'):
            hdrs.append((b'Content-Length', b'5'))
    else:
        n = size(tape, 300, max_body, 'respbody')
        body = body_bytes(tape, n, 'respbody')
        fr = tape.weighted([5, 3, 2 if allow_close else 0], 'framing')
        if fr == 2 and not g.note('close_delimited'):
            fr = 0
        if fr == 0:
            framing = 'length'
            hdrs.append((casing(tape, b'Content-Length'), str(len(body)).encode()))
        elif fr == 1 and version == b'HTTP/1.1':
            framing = 'chunked'
            hdrs.append((casing(tape, b'Transfer-Encoding'), casing(tape, b'chunked')))
        elif fr == 2:
            framing = 'close'
            if tape.coin(0.5, 'connclose'):
                hdrs.append((b'Connection', b'close'))
        else:
            framing = 'length'
            hdrs.append((b'Content-Length', str(len(body)).encode()))
    # header order
    if len(hdrs) > 1 and tape.coin(0.5, 'hdr-rot'):
        k = tape.draw(len(hdrs), 'rot')
        hdrs = hdrs[k:] + hdrs[:k]
    out += line + b'\r\n'
    for k_, v_ in hdrs:
        sep = [b': ', b':', b':  ', b': '][tape.draw(4, 'ows')]
        out += k_ + sep + v_ + b'\r\n'
    out += b'\r\n'
    meta['head_len'] = len(out)
    if framing == 'chunked':
        enc, marks = chunk_encode(tape, g, body)
        meta['marks'] = [len(out) + m for m in marks]
        out += enc
    else:
        out += body
    meta.update({'status': status, 'framing': framing, 'body': body, 'version': version,
                 'headers': hdrs})
    return bytes(out), meta


# ---------------------------------------------------------------------------
# h11 reference parsing
# ---------------------------------------------------------------------------

def h11_parse_responses(data: bytes, eof: bool, request_methods: Optional[List[bytes]] = None,
                        max_responses: int = 1000) -> Dict[str, Any]:
    """Parse a client-side byte stream as a sequence of responses.

    Returns dict(responses=[{status, headers, body, complete}], error=str|None,
    trailing=bytes, incomplete=bool)."""
    out: Dict[str, Any] = {'responses': [], 'error': None, 'trailing': b'', 'incomplete': False}
    methods = list(request_methods or [])
    conn = h11.Connection(our_role=h11.CLIENT, max_incomplete_event_size=1 << 26)
    idx = 0
    fed = False
    fed_eof = False
    cur: Optional[Dict[str, Any]] = None

    def send_req() -> None:
        m = methods[idx] if idx < len(methods) else b'GET'
        tgt = b'example.org:443' if m == b'CONNECT' else b'/'
        conn.send(h11.Request(method=m, target=tgt, headers=[(b'Host', b'example.org')]))
        conn.send(h11.EndOfMessage())

    out['closed_mid_message'] = False
    try:
        send_req()
        if data:
            conn.receive_data(data)
        fed = True
        while True:
            ev = conn.next_event()
            if ev is h11.NEED_DATA:
                if eof and not fed_eof:
                    # end-of-stream matters only to a close-delimited body
                    fed_eof = True
                    if cur is not None:
                        try:
                            conn.receive_data(b'')
                            continue
                        except h11.ProtocolError:
                            pass
                    out['closed_mid_message'] = cur is not None
                if cur is not None:
                    out['incomplete'] = True
                break
            if ev is h11.PAUSED:
                # response done, connection wants the next cycle
                if conn.their_state is h11.MIGHT_SWITCH_PROTOCOL or conn.their_state is h11.SWITCHED_PROTOCOL:
                    out['trailing'], _ = conn.trailing_data
                    if cur is not None:
                        # 2xx to CONNECT / 101: the response ends with its header block
                        cur['complete'] = True
                        cur['switched'] = True
                        cur = None
                    break
                if conn.our_state is h11.DONE and conn.their_state is h11.DONE:
                    conn.start_next_cycle()
                    idx += 1
                    if idx >= max_responses:
                        out['trailing'], _ = conn.trailing_data
                        break
                    send_req()
                    continue
                out['trailing'], _ = conn.trailing_data
                break
            if isinstance(ev, h11.InformationalResponse):
                out['responses'].append({'status': ev.status_code, 'headers': list(ev.headers),
                                         'body': b'', 'complete': True, 'interim': True})
                continue
            if isinstance(ev, h11.Response):
                cur = {'status': ev.status_code, 'headers': [(bytes(k), bytes(v)) for k, v in ev.headers],
                       'body': bytearray(), 'complete': False, 'interim': False,
                       'http_version': bytes(ev.http_version), 'reason': bytes(ev.reason)}
                out['responses'].append(cur)
                continue
            if isinstance(ev, h11.Data):
                assert cur is not None
                cur['body'] += ev.data
                continue
            if isinstance(ev, h11.EndOfMessage):
                assert cur is not None
                cur['complete'] = True
                cur['body'] = bytes(cur['body'])
                cur = None
                if conn.their_state is h11.SWITCHED_PROTOCOL:
                    out['trailing'], _ = conn.trailing_data
                    break
                continue
            if isinstance(ev, h11.ConnectionClosed):
                break
    except h11.ProtocolError as e:
        out['error'] = '%s: %s' % (type(e).__name__, e)
    for r in out['responses']:
        if isinstance(r['body'], bytearray):
            r['body'] = bytes(r['body'])
    return out


# ---------------------------------------------------------------------------
# requests
# ---------------------------------------------------------------------------

METHODS = [b'GET', b'POST', b'PUT', b'DELETE', b'PATCH', b'OPTIONS', b'HEAD', b'PROPFIND', b'M-SEARCH']
PATHS = [b'/', b'/a', b'/a/b/c', b'/index.html', b'/x?y=1&z=2', b'/p%20q', b'/a;b=c', b'/~u/', b'/*',
         b'/very/long/' + b'p' * 40, b'/?', b'/a//b']
REQ_HDRS = [b'Accept', b'User-Agent', b'X-Trace-Id', b'Cookie', b'X-b', b'Cache-Control',
            b'Accept-Language', b'X-UPPER', b'Referer', b'If-None-Match', b'x-z9', b'Authorization',
            b'X-Forwarded-For', b'Pragma', b'Range']


def gen_headers(tape: Any, n: int, exclude: List[bytes]) -> List[Tuple[bytes, bytes]]:
    out: List[Tuple[bytes, bytes]] = []
    seen = {e.lower() for e in exclude}
    for _ in range(n):
        nm = REQ_HDRS[tape.draw(len(REQ_HDRS), 'hname')]
        if nm.lower() in seen:
            continue
        seen.add(nm.lower())
        out.append((casing(tape, nm), VALUES[tape.draw(len(VALUES) - 1, 'hval')] or b'v'))
    return out


def render_head(tape: Any, line: bytes, hdrs: List[Tuple[bytes, bytes]]) -> Tuple[bytes, List[int]]:
    out = bytearray(line + b'\r\n')
    marks = [len(out) - 1, len(out)]
    for k_, v_ in hdrs:
        pre = [b' ', b'', b'  ', b'\t'][tape.weighted([6, 2, 1, 1], 'ows1')]
        post = [b'', b' ', b'  '][tape.weighted([6, 2, 1], 'ows2')]
        out += k_ + b':' + pre + v_ + post + b'\r\n'
        marks += [len(out) - 1, len(out)]
    out += b'\r\n'
    marks += [len(out) - 1, len(out)]
    return bytes(out), marks


def gen_request(tape: Any, g: Gen, *, form: str = 'absolute', host: bytes = b'up.example',
                port: Optional[int] = None, max_body: int = 300, tag: bytes = b'',
                allow_chunked: bool = True, methods: Optional[List[bytes]] = None,
                extra: Optional[List[Tuple[bytes, bytes]]] = None, path: Optional[bytes] = None,
                keepalive: bool = True, allow_http10: bool = True) -> Tuple[bytes, Dict[str, Any]]:
    ms = methods or METHODS
    method = ms[tape.draw(len(ms), 'method')]
    if form == 'connect':
        method = b'CONNECT'
    p = path if path is not None else PATHS[tape.draw(len(PATHS), 'path')]
    if tag:
        p = p + (b'&' if b'?' in p else b'?') + b'tag=' + tag
    authority = host + (b':%d' % port if port is not None else b'')
    if form == 'absolute':
        target = b'http://' + authority + p
    elif form == 'connect':
        target = host + b':%d' % (port or 443)
    else:
        target = p
    version = b'HTTP/1.1'
    if allow_http10 and g.feature('http10', 0.1):
        version = b'HTTP/1.0'
    hdrs: List[Tuple[bytes, bytes]] = []
    hdrs.append((casing(tape, b'Host'), authority))
    hdrs += gen_headers(tape, tape.draw(6, 'nhdr'), [b'host'] + [e[0] for e in (extra or [])])
    for e in (extra or []):
        hdrs.insert(tape.draw(len(hdrs) + 1, 'extra-pos'), e)
    body = b''
    framing = 'none'
    has_body = method in (b'POST', b'PUT', b'PATCH', b'PROPFIND') and form != 'connect'
    raw_body = b''
    bmarks: List[int] = []
    if has_body:
        n = size(tape, 200, max_body, 'reqbody')
        body = body_bytes(tape, n, 'reqbody')
        if allow_chunked and version == b'HTTP/1.1' and g.feature('chunked_request', 0.4):
            framing = 'chunked'
            hdrs.append((casing(tape, b'Transfer-Encoding'), b'chunked'))
            raw_body, bmarks = chunk_encode(tape, g, body, allow_ext=g.feature('req_chunk_ext', 0.2),
                                            allow_trailers=False)
            if not body:
                g.note('empty_chunked_body')
        else:
            framing = 'length'
            hdrs.append((casing(tape, b'Content-Length'), str(len(body)).encode()))
            raw_body = body
    if len(hdrs) > 2 and tape.coin(0.5, 'hdr-rot'):
        k = 1 + tape.draw(len(hdrs) - 1, 'rot')
        hdrs = hdrs[:1] + hdrs[k:] + hdrs[1:k]
    head, marks = render_head(tape, method + b' ' + target + b' ' + version, hdrs)
    raw = head + raw_body
    marks += [len(head) + m for m in bmarks]
    meta = {'method': method, 'target': target, 'path': p, 'version': version, 'headers': hdrs,
            'body': body, 'framing': framing, 'marks': marks, 'head_len': len(head),
            'host': host, 'port': port, 'form': form}
    return raw, meta


def gen_cuts(tape: Any, total: int, marks: List[int], label: str = 'cuts') -> List[int]:
    """Cut positions in (0, total): none / uniform / boundary-biased / every byte."""
    if total <= 1:
        return []
    mode = tape.weighted([3, 3, 4, 1], label + '-mode')
    if mode == 0:
        return []
    if mode == 3:
        return list(range(1, total))
    n = 1 + tape.small(6, label + '-n')
    cuts = set()
    cand = sorted({m + d for m in marks for d in (-1, 0, 1) if 0 < m + d < total})
    for _ in range(n):
        if mode == 2 and cand and tape.coin(0.8, label + '-b'):
            cuts.add(cand[tape.draw(len(cand), label + '-at')])
        else:
            cuts.add(1 + tape.draw(total - 1, label + '-at'))
    return sorted(cuts)


def pieces(data: bytes, cuts: List[int]) -> List[bytes]:
    out = []
    prev = 0
    for c in cuts:
        out.append(data[prev:c])
        prev = c
    out.append(data[prev:])
    return [p for p in out if p]


def h11_parse_requests(data: bytes, eof: bool = False) -> Dict[str, Any]:
    """Parse an origin-side byte stream as a sequence of requests (h11 server role)."""
    out: Dict[str, Any] = {'requests': [], 'error': None, 'trailing': b'', 'incomplete': False}
    conn = h11.Connection(our_role=h11.SERVER, max_incomplete_event_size=1 << 26)
    cur: Optional[Dict[str, Any]] = None
    try:
        if data:
            conn.receive_data(data)
        while True:
            ev = conn.next_event()
            if ev is h11.NEED_DATA:
                if cur is not None:
                    out['incomplete'] = True
                break
            if ev is h11.PAUSED:
                if conn.their_state is h11.DONE or conn.their_state is h11.MIGHT_SWITCH_PROTOCOL:
                    # answer so that the next cycle can start (an upgrade request is declined with the same plain 200)
                    if conn.our_state is h11.SEND_RESPONSE:
                        conn.send(h11.Response(status_code=200, headers=[(b'content-length', b'0')]))
                        conn.send(h11.EndOfMessage())
                    if conn.our_state is h11.DONE and conn.their_state is h11.DONE:
                        conn.start_next_cycle()
                        continue
                out['trailing'], _ = conn.trailing_data
                break
            if isinstance(ev, h11.Request):
                cur = {'method': bytes(ev.method), 'target': bytes(ev.target),
                       'version': b'HTTP/' + bytes(ev.http_version),
                       'headers': [(bytes(k), bytes(v)) for k, v in ev.headers.raw_items()],
                       'body': bytearray(), 'complete': False}
                out['requests'].append(cur)
                continue
            if isinstance(ev, h11.Data):
                assert cur is not None
                cur['body'] += ev.data
                continue
            if isinstance(ev, h11.EndOfMessage):
                assert cur is not None
                cur['complete'] = True
                cur = None
                continue
            if isinstance(ev, h11.ConnectionClosed):
                break
    except h11.ProtocolError as e:
        out['error'] = '%s: %s' % (type(e).__name__, e)
    for r in out['requests']:
        r['body'] = bytes(r['body'])
    return out
