"""Self-validation of the machinery: setup smoke, determinism, conformance, mutants."""
import json
import os
import shutil
import subprocess
import sys
import tempfile
import time
from typing import Any, Dict, List

from . import runner


def _batch(pid: str, cfg: dict, base_seed: int, indices: List[int], hashseed: int, scratch: str, tag: str) -> Dict[str, str]:
    job = {'mode': 'batch', 'prop': pid, 'tier': 'quick', 'cfg': cfg, 'base_seed': base_seed,
           'start': 0, 'stride': 1, 'count': 0, 'deadline_s': 600, 'watchdog_s': 120, 'kfs': [],
           'scratch': os.path.join(scratch, tag), 'out': os.path.join(scratch, tag + '.json'),
           'det_indices': indices}
    p = runner._spawn(job, hashseed)
    (j, doc, err), = runner._wait([(job, p)], 900)
    if doc is None or not doc.get('ok'):
        raise RuntimeError('selftest worker failed: %s %s' % (err, doc and doc.get('error')))
    if doc['errors']:
        raise RuntimeError('selftest run raised: %s' % doc['errors'][0]['tb'])
    return doc['det']


def determinism(pids: List[str], n: int, hashseeds: List[int]) -> int:
    from . import props
    os.makedirs(os.path.join(runner.VERIF, '.work'), exist_ok=True)
    scratch = tempfile.mkdtemp(prefix='det-', dir=os.path.join(runner.VERIF, '.work'))
    bad = 0
    try:
        for pid in pids:
            mod = props.load(pid)
            if getattr(mod, 'UNCLAIMED', None):
                continue
            cfg = {k: v for k, v in mod.TIERS['quick'].items() if k not in ('runs', 'budget_s', 'watchdog_s')}
            idx = list(range(n))
            t0 = time.monotonic()
            ref = _batch(pid, cfg, 7, idx, hashseeds[0], scratch, pid + '-a')
            for k, hs in enumerate(hashseeds):
                again = _batch(pid, cfg, 7, list(reversed(idx)) if k % 2 else idx, hs, scratch, '%s-b%d' % (pid, k))
                nh = getattr(mod, 'HASHSEEDS', 1)
                diff = [i for i in ref if ref[i] != again.get(i) and (nh <= 1 or hs == hashseeds[0])]
                if diff:
                    bad += 1
                    print('NONDETERMINISM %s: indices %s differ (PYTHONHASHSEED %s vs %s)' % (pid, diff[:8], hashseeds[0], hs))
            print('determinism %s: %d seeds x %d fresh interpreters (hash seeds %s) identical=%s  %.1fs'
                  % (pid, n, len(hashseeds) + 1, hashseeds, not bad, time.monotonic() - t0))
    finally:
        shutil.rmtree(scratch, ignore_errors=True)
    return 3 if bad else 0


def main(sub: str, args: Any) -> int:
    from . import props
    built = []
    for pid in props.ALL:
        try:
            props.load(pid)
            built.append(pid)
        except ImportError:
            pass
    if args.only:
        built = [p for p in built if p in args.only.upper().split(',')]
    if sub == 'setup':
        import h11  # noqa: F401
        rc = 0
        from . import conformance
        rc = conformance.main()
        if rc:
            return rc
        return determinism(built, 6, [0, 12345])
    if sub == 'determinism':
        return determinism(built, args.runs or 200, [0, 1, 424242])
    if sub == 'conformance':
        from . import conformance
        return conformance.main()
    if sub == 'mutants':
        from . import mutants
        return mutants.main(args)
    print('unknown selftest', sub)
    return 2
