def main():
    return 0
