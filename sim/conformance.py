"""Conformance suite: scripted micro-histories executed against the real kernel objects (loopback TCP sockets,
selectors.DefaultSelector = epoll, multiprocessing.Pipe) and against the simulated ones, comparing return values and
exception classes / errno names.  A disagreement is a harness error (exit 3), never a verdict.

Run as  `python -m sim.conformance`  (spawned by `./check selftest conformance|setup`): the real part must run in an
interpreter where the standard library is not patched, the simulated part runs after sim.install.install().
"""
import errno
import json
import os
import struct
import subprocess
import sys
import time
from typing import Any, Callable, Dict, List, Tuple

# ---------------------------------------------------------------------------------------------------------------------
# stream socket histories.  Endpoints: 'c' (connecting side) and 's' (accepted side).  Both non-blocking.
# ops: (end, 'send', bytes) (end, 'recv', n) (end, 'close') (end, 'rst') (end, 'shutdown') (end, 'shutrd')
# ---------------------------------------------------------------------------------------------------------------------
TCP: Dict[str, List[Tuple[Any, ...]]] = {
    'echo': [('c', 'send', b'abc'), ('s', 'recv', 10), ('s', 'send', b'xy'), ('c', 'recv', 1), ('c', 'recv', 10)],
    'recv_empty_eagain': [('s', 'recv', 10)],
    'fin_then_recv': [('c', 'close'), ('s', 'recv', 10), ('s', 'recv', 10)],
    'data_then_fin': [('c', 'send', b'abc'), ('c', 'close'), ('s', 'recv', 2), ('s', 'recv', 10), ('s', 'recv', 10)],
    'rst_recv_shutdown': [('c', 'rst'), ('s', 'recv', 10), ('s', 'shutdown'), ('s', 'recv', 10), ('s', 'send', b'x')],
    'rst_shutdown_unread': [('c', 'rst'), ('s', 'shutdown'), ('s', 'recv', 10)],
    'rst_send': [('c', 'rst'), ('s', 'send', b'x'), ('s', 'send', b'x'), ('s', 'recv', 10)],
    'fin_shutdown_twice': [('c', 'close'), ('s', 'recv', 10), ('s', 'shutdown'), ('s', 'shutdown')],
    'closed_peer_send_twice': [('c', 'close'), ('s', 'send', b'x'), ('s', 'send', b'x'), ('s', 'shutdown'), ('s', 'recv', 10)],
    'close_with_unread_is_rst': [('s', 'send', b'hello'), ('c', 'send', b'abc'), ('c', 'close'), ('s', 'recv', 10), ('s', 'recv', 10),
                                 ('s', 'shutdown')],
    'shutdown_twice_peer_open': [('s', 'shutdown'), ('s', 'shutdown'), ('s', 'send', b'x'), ('c', 'recv', 10)],
    'half_close': [('c', 'shutdown'), ('s', 'recv', 10), ('s', 'send', b'late'), ('c', 'recv', 10), ('c', 'send', b'x')],
    'send_after_own_close': [('s', 'close'), ('s', 'send', b'x')],
    'recv_after_own_close': [('s', 'close'), ('s', 'recv', 1)],
    'fin_after_data_send_back': [('c', 'send', b'q'), ('c', 'shutdown'), ('s', 'recv', 10), ('s', 'recv', 10), ('s', 'send', b'r'),
                                 ('c', 'recv', 10), ('s', 'close'), ('c', 'recv', 10)],
    'rst_after_data_read_order': [('c', 'send', b'abc'), ('c', 'rst'), ('s', 'recv', 10), ('s', 'recv', 10)],
    'shutdown_then_peer_close': [('s', 'shutdown'), ('c', 'recv', 10), ('c', 'close'), ('s', 'recv', 10), ('s', 'shutdown')],
}

# selector histories on one connected pair; 'S' is a DefaultSelector owned by the 's' side process.
# ops: ('reg', end, mask) ('mod', end, mask) ('unreg', end) ('sel',) ('close', end) ('dupclose', end) ('newpair',) ('regnew', mask)
#      ('send', end, data) ('map',)
SEL: Dict[str, List[Tuple[Any, ...]]] = {
    'readable_after_data': [('reg', 's', 1), ('sel',), ('send', 'c', b'x'), ('sel',)],
    'writable': [('reg', 's', 2), ('sel',)],
    'close_while_registered_map': [('reg', 's', 1), ('close', 's'), ('map',), ('sel',)],
    'closed_fd_reused_register': [('reg', 's', 1), ('close', 's'), ('newpair',), ('regnew', 1)],
    'closed_fd_modify_same_mask': [('reg', 's', 1), ('close', 's'), ('newpair',), ('modnew', 1)],
    'closed_fd_modify_other_mask': [('reg', 's', 1), ('close', 's'), ('newpair',), ('modnew', 3), ('map',)],
    'unregister_closed': [('reg', 's', 1), ('close', 's'), ('unreg_fd',), ('map',)],
    'register_twice': [('reg', 's', 1), ('reg', 's', 1)],
    'unregister_unknown': [('unreg', 's')],
    'modify_unknown': [('mod', 's', 1)],
    'hup_after_peer_close': [('reg', 's', 1), ('close', 'c'), ('sel',)],
    'rst_readable': [('reg', 's', 3), ('rst', 'c'), ('sel',)],
}


def _err(e: BaseException) -> str:
    if isinstance(e, OSError) and e.errno is not None:
        return 'E:' + errno.errorcode.get(e.errno, str(e.errno))
    return 'X:' + type(e).__name__


def run_tcp(make_pair: Callable[[], Tuple[Any, Any]], rst: Callable[[Any], None], settle: Callable[[], None],
            ops: List[Tuple[Any, ...]]) -> List[Any]:
    import socket
    c, s = make_pair()
    ends = {'c': c, 's': s}
    out: List[Any] = []
    for op in ops:
        x = ends[op[0]]
        try:
            if op[1] == 'send':
                r: Any = x.send(op[2])
            elif op[1] == 'recv':
                r = x.recv(op[2]).decode('latin-1')
            elif op[1] == 'close':
                x.close()
                r = 'ok'
            elif op[1] == 'rst':
                rst(x)
                r = 'ok'
            elif op[1] == 'shutdown':
                x.shutdown(socket.SHUT_WR)
                r = 'ok'
            else:
                raise ValueError(op)
        except (OSError, ValueError) as e:
            r = _err(e)
        out.append(r)
        settle()
    for x in ends.values():
        try:
            x.close()
        except OSError:
            pass
    return out


def run_sel(make_pair: Callable[[], Tuple[Any, Any]], rst: Callable[[Any], None], settle: Callable[[], None],
            ops: List[Tuple[Any, ...]]) -> List[Any]:
    import selectors
    sel = selectors.DefaultSelector()
    c, s = make_pair()
    ends = {'c': c, 's': s}
    fds = {'c': c.fileno(), 's': s.fileno()}
    new: List[Any] = []
    out: List[Any] = []
    for op in ops:
        try:
            if op[0] == 'reg':
                sel.register(fds[op[1]], op[2], 'd')
                r: Any = 'ok'
            elif op[0] == 'mod':
                sel.modify(fds[op[1]], op[2], 'd')
                r = 'ok'
            elif op[0] == 'unreg':
                sel.unregister(fds[op[1]])
                r = 'ok'
            elif op[0] == 'unreg_fd':
                sel.unregister(fds['s'])
                r = 'ok'
            elif op[0] == 'sel':
                ev = sel.select(timeout=0)
                r = sorted(('s' if k.fd == fds['s'] else 'c' if k.fd == fds['c'] else 'n', m) for k, m in ev)
            elif op[0] == 'close':
                ends[op[1]].close()
                r = 'ok'
            elif op[0] == 'rst':
                rst(ends[op[1]])
                r = 'ok'
            elif op[0] == 'send':
                r = ends[op[1]].send(op[2])
            elif op[0] == 'newpair':
                a, b = make_pair()
                new += [a, b]
                # lowest-free-number allocation: the closed number is reused by one of the new sockets
                r = 'reused' if fds['s'] in (a.fileno(), b.fileno()) else 'notreused'
            elif op[0] == 'regnew':
                sel.register(fds['s'], op[1], 'n')
                r = 'ok'
            elif op[0] == 'modnew':
                sel.modify(fds['s'], op[1], 'n')
                r = 'ok'
            elif op[0] == 'map':
                r = sorted('s' if fd == fds['s'] else 'c' if fd == fds['c'] else 'n' for fd in sel.get_map())
            else:
                raise ValueError(op)
        except (OSError, KeyError, ValueError) as e:
            r = _err(e)
        out.append(r)
        settle()
    try:
        sel.close()
    except OSError:
        pass
    for x in list(ends.values()) + new:
        try:
            x.close()
        except OSError:
            pass
    return out


def run_pipe(make_pipe: Callable[[], Tuple[Any, Any]]) -> Dict[str, Any]:
    out: Dict[str, Any] = {}
    a, b = make_pipe()
    a.send({'x': 1})
    out['roundtrip'] = b.recv()
    b.close()
    try:
        a.send('to-dead-peer')
        out['send_dead'] = 'ok'
    except Exception as e:      # noqa
        out['send_dead'] = _err(e)
    a.close()
    a, b = make_pipe()
    a.close()
    try:
        b.recv()
        out['recv_dead'] = 'ok'
    except Exception as e:      # noqa
        out['recv_dead'] = _err(e)
    try:
        out['poll_dead'] = b.poll(0)
    except Exception as e:      # noqa
        out['poll_dead'] = _err(e)
    b.close()
    try:
        b.send(1)
        out['send_closed_self'] = 'ok'
    except Exception as e:      # noqa
        out['send_closed_self'] = _err(e)
    return out


# ---------------------------------------------------------------------------------------------------------------------

def real_results() -> Dict[str, Any]:
    import multiprocessing
    import socket

    def make_pair() -> Tuple[Any, Any]:
        lst = socket.socket()
        lst.bind(('127.0.0.1', 0))
        lst.listen(1)
        c = socket.socket()
        c.connect(lst.getsockname())
        s, _ = lst.accept()
        lst.close()
        c.setblocking(False)
        s.setblocking(False)
        return c, s

    def rst(x: Any) -> None:
        x.setsockopt(socket.SOL_SOCKET, socket.SO_LINGER, struct.pack('ii', 1, 0))
        x.close()

    def settle() -> None:
        time.sleep(0.01)
    res: Dict[str, Any] = {'tcp': {}, 'sel': {}}
    for name, ops in TCP.items():
        res['tcp'][name] = run_tcp(make_pair, rst, settle, ops)
    for name, ops in SEL.items():
        res['sel'][name] = run_sel(make_pair, rst, settle, ops)
    res['pipe'] = run_pipe(lambda: multiprocessing.Pipe())
    return res


def sim_results() -> Dict[str, Any]:
    from .install import install
    install()
    from .kernel import World
    from .sockets import SimSocket
    from .tape import Tape
    import multiprocessing
    res: Dict[str, Any] = {'tcp': {}, 'sel': {}}

    def in_world(fn: Callable[[Any], Any]) -> Any:
        with World(Tape(replay=[])) as w:
            def make_pair() -> Tuple[Any, Any]:
                a, b = w.stream_pair(65536, 65536, 'conf:c', 'conf:s')
                fa = w.main_proc.alloc(a)
                fb = w.main_proc.alloc(b)
                ca, cb = SimSocket(fileno=fa), SimSocket(fileno=fb)
                ca.setblocking(False)
                cb.setblocking(False)
                return ca, cb

            def rst(x: Any) -> None:
                x._stream().k_reset()
                x.detach()
                w.main_proc.fds.pop(x._sfd, None)
            return fn((make_pair, rst, lambda: None))
    for name, ops in TCP.items():
        res['tcp'][name] = in_world(lambda t, ops=ops: run_tcp(t[0], t[1], t[2], ops))
    for name, ops in SEL.items():
        res['sel'][name] = in_world(lambda t, ops=ops: run_sel(t[0], t[1], t[2], ops))
    res['pipe'] = in_world(lambda t: run_pipe(lambda: multiprocessing.Pipe()))
    return res


def main() -> int:
    here = os.path.dirname(os.path.dirname(os.path.abspath(__file__)))
    env = dict(os.environ)
    env['PYTHONPATH'] = here + os.pathsep + env.get('PYTHONPATH', '')
    outs = {}
    for which in ('real', 'sim'):
        p = subprocess.run([sys.executable, '-W', 'ignore', '-m', 'sim.conformance', which], cwd=here, env=env,
                           capture_output=True, text=True, timeout=300)
        if p.returncode != 0:
            print('HARNESS-ERROR: conformance %s part failed:\n%s' % (which, p.stderr[-2000:]))
            return 3
        outs[which] = json.loads(p.stdout.strip().splitlines()[-1])
    bad = 0
    n = 0
    for group in ('tcp', 'sel'):
        for name in outs['real'][group]:
            n += 1
            r, s = outs['real'][group][name], outs['sim'][group][name]
            if r != s:
                bad += 1
                print('CONFORMANCE MISMATCH %s/%s:\n   real %r\n   sim  %r' % (group, name, r, s))
    for k in outs['real']['pipe']:
        n += 1
        if outs['real']['pipe'][k] != outs['sim']['pipe'][k]:
            bad += 1
            print('CONFORMANCE MISMATCH pipe/%s: real %r sim %r' % (k, outs['real']['pipe'][k], outs['sim']['pipe'][k]))
    print('conformance: %d histories compared against the real kernel objects, %d mismatches' % (n, bad))
    return 3 if bad else 0


if __name__ == '__main__':
    if len(sys.argv) > 1 and sys.argv[1] in ('real', 'sim'):
        r = real_results() if sys.argv[1] == 'real' else sim_results()
        print(json.dumps(r))
        sys.exit(0)
    sys.exit(main())
