"""C20  Idle connections are reaped after the timeout and active ones never are."""
from typing import Any, Dict, FrozenSet, List, Optional, Tuple

from . import Gen, Result

ID = 'C20'
TITLE = 'Idle connections are reaped after the timeout and active ones never are'
RULE = ('one run = 1-3 connections (CONNECT tunnel, keep-alive forward HTTP, built-in web route, half-received '
        'request, silent connection, chatty tunnel with a client write every 10-20 ms for longer than timeout + bound, tunnel whose upstream drains an upload 64 bytes every 10-20 ms for longer than that and never answers) on one real executor (threadless) or one real handler thread each '
        '(threaded), flags.timeout drawn from {1,2,3,5,10}; peers never close on their own; every connection '
        'follows a timed trace of client writes, upstream writes and client read pauses with output pending, the '
        'gaps drawn just below / just above the threshold on the virtual clock; the simulator records the time '
        'of every recv/send the proxy performs on the client socket and the moment it ends the connection; '
        'non-trivial = some gap lies within 0.1 s of the threshold or a read pause with pending output exceeds '
        'the timeout; distinct = distinct event-log digests')
PROBES = ['front_tls', 'tunnel', 'keepalive', 'web', 'half_request', 'silent', 'chatty', 'slow_upstream', 'threaded', 'gap_just_below', 'gap_just_above',
          'pending_output_beyond_timeout', 'reaped', 'upstream_only_activity', 'multi_connection']
COMPONENTS = {
    'real': ['proxy/http/handler.py (is_inactive, last_activity, threaded run loop)',
             'proxy/core/work/threadless.py (_run_forever tick / _cleanup_inactive)', 'proxy/core/base/tcp_server.py',
             'proxy/http/proxy/server.py', 'proxy/http/server/web.py', 'proxy/core/connection/*.py'],
    'stub': ['kernel incl. the virtual clock behind time.time() and select timeouts', 'peers', 'generated web route'],
}
ASSUMPTIONS = ['time is the proxy\'s own clock (time.time() = virtual clock); wall-clock jumps are not injected',
               'client-side traffic = a recv()/send() on the client socket that moved at least one byte, timed when the '
               'proxy performs it (bytes that arrived but were not yet read do not count)',
               'liveness bound after the idle threshold: threadless 1.25 x cleanup period (1 s) + 0.25 s; threaded one '
               'select period (25 ms) + 0.1 s; safety tolerance 5 ms (cost of the kernel calls between the proxy '
               'reading its clock and touching the socket)',
               'no other legitimate cause of a proxy-side close exists in these scenarios (peers never close, no '
               'Connection: close, no errors), so every close is attributed to the reaper']
TIERS = {
    'quick': {'runs': 6000, 'budget_s': 45, 'max_events': 4},
    'thorough': {'runs': 400000, 'budget_s': 900, 'max_events': 8},
}
STATE_MEASURE = 'distinct (role, mode, timeout, gap class sequence) tuples'
SAFETY_TOL = 0.005


_px: Dict[str, Any] = {}


def setup_worker(job: Dict[str, Any]) -> None:
    from ..tls import fixtures, origin_cert
    px = fixtures(job['scratch'])
    _px.update(px)
    _px['front'] = origin_cert(px, 'proxy.example', 'good')     # the proxy's own TLS front (--cert-file / --key-file)


def run_one(tape: Any, cfg: Dict[str, Any], forbid: FrozenSet[str] = frozenset()) -> Result:
    from ..actors import Origin, Peer
    from ..harness import L1, L3, make_flags
    from ..kernel import World
    from ..plugins import make_web_route_plugin
    from .. import scen
    from .c04 import count_responses
    from proxy.http.responses import PROXY_TUNNEL_ESTABLISHED_RESPONSE_PKT
    ACK = bytes(PROXY_TUNNEL_ESTABLISHED_RESPONSE_PKT)

    g = Gen(tape, forbid)
    res = Result()
    with World(tape, step_cap=1500000) as w:
        scen.sched_swarm(w, tape)
        T = [1, 2, 3, 5, 10][tape.draw(5, 'timeout')]
        threaded = g.feature('threaded', 0.3)
        nconn = 1 + tape.weighted([4, 2, 1], 'nconn')
        if threaded:
            w.probe('threaded')
        if nconn > 1:
            w.probe('multi_connection')
        B = (0.025 + 0.1) if threaded else 1.5
        route = make_web_route_plugin(1, r'/web', lambda tg: b'web-reply:' + tg)
        opts = scen.proxy_opts(tape, 16)
        # a TLS front: the handler then works on a wrapped connection object (created in initialize()); what counts as pending
        # output and as client traffic must be read off that one
        front_tls = g.feature('front_tls', 0.12)
        if front_tls:
            w.probe('front_tls')
            opts.pop('client_recvbuf_size', None)
            opts = dict(opts, cert_file=_px['front']['cert'], key_file=_px['front']['key'])
        flags = make_flags(threadless=not threaded, threaded=threaded, local_executor=1, timeout=T,
                           enable_web_server=True, plugins=[route], **opts)
        h: Any = L3(w, flags) if threaded else L1(w, flags)
        RESP = b'HTTP/1.1 200 OK\r\nContent-Length: 4\r\n\r\nbody'
        conns: List[Dict[str, Any]] = []
        states = set()
        nontrivial = False
        horizon = 0.0
        for k in range(nconn):
            role = ['tunnel', 'keepalive', 'web', 'half_request', 'silent', 'chatty', 'slow_upstream'][
                tape.weighted([4, 3, 2, 1, 1, 1, 1], 'role')]
            if role == 'chatty' and not g.note('chatty_neighbour'):
                role = 'tunnel'
            if role == 'slow_upstream' and not g.note('slow_upstream'):
                role = 'tunnel'
            if role == 'web' and front_tls:
                role = 'tunnel'     # (the generated route is registered for plain http only: over TLS it would be a 404 and a close)
            w.probe(role)
            ip = '10.0.1.%d' % (k + 1)
            cap_c = [4096, 1024, 64][tape.draw(3, 'capc')]      # a read pause moves 4 x cap_c bytes, possibly 16 at a time
            t = [0.0, 0.3, 0.7][tape.draw(3, 'start')]
            c: Dict[str, Any] = {'k': k, 'role': role, 'ip': ip, 't_connect': t, 'b': None, 'pz_since': 0.0,
                                 'ended': None, 'gaps': []}
            script: List[Any] = [('at', t), ('connect',)] if t else [('connect',)]
            if front_tls:
                import ssl
                script += [('tls_client', ssl.create_default_context(cafile=_px['pub_cert']), 'proxy.example'), ('wait_tls',)]
            oscript: List[Any] = []
            if role in ('tunnel', 'chatty', 'slow_upstream'):
                req = b'CONNECT %s:443 HTTP/1.1\r\nHost: %s:443\r\n\r\n' % (ip.encode(), ip.encode())
                script += [('send', req, 'burst'), ('wait_rx', lambda p: b'\r\n\r\n' in p.rx)]
            elif role == 'keepalive':
                req = b'GET http://%s/x HTTP/1.1\r\nHost: %s\r\n\r\n' % (ip.encode(), ip.encode())
                script += [('send', req, 'burst'), ('wait_rx', lambda p: count_responses(bytes(p.rx)) >= 1)]
            elif role == 'web':
                req = b'GET /web HTTP/1.1\r\nHost: l\r\nX-Req-Tag: t\r\n\r\n'
                script += [('send', req, 'burst'), ('wait_rx', lambda p: count_responses(bytes(p.rx)) >= 1)]
            elif role == 'half_request':
                req = b'GET http://%s/x HTTP/1.1\r\nHost: %s\r\nX-A: 1\r\n' % (ip.encode(), ip.encode())
                script += [('send', req, 'burst')]
            nev = tape.draw(cfg['max_events'] + 1, 'nev') if role not in ('silent', 'chatty', 'slow_upstream') else 0
            t += 0.05
            if role == 'slow_upstream':
                # the client uploads a burst and falls silent; the upstream drains it 64 bytes at a time for longer than
                # timeout + bound and never answers: events on the upstream side only, nothing moves on the client side
                step = [0.01, 0.02][tape.draw(2, 'drainstep')]
                ncyc = int((T + B + 1.5) / step)
                script += [('send', b'u' * (64 * ncyc), 'burst')]
                oscript += [('pause_read',)]
                for i in range(ncyc):
                    oscript += [('sleep', step), ('resume_read',),
                                ('wait_rx', (lambda n: (lambda p: len(p.rx) >= n))(64 * (i + 1))), ('pause_read',)]
                oscript += [('resume_read',)]
                nontrivial = True
            if role == 'chatty':
                # steady traffic at gaps below the select period for longer than timeout + bound: the worker's loop never
                # sees an idle tick while this lasts, and idle neighbours must be reaped all the same
                step = [0.01, 0.02][tape.draw(2, 'chatgap')]
                for i in range(int((T + B + 1.0) / step)):
                    script += [('at', round(t + i * step, 4)), ('send', b'x', 'burst')]
                t += T + B + 1.0
                nontrivial = nontrivial or nconn > 1
            nreq = 1
            classes = []
            for e in range(nev):
                gc_ = tape.weighted([2, 2, 3, 3, 2, 1], 'gap')
                gap = [0.3 * T, T - 0.4, T - 0.03, T + 0.03, T + 0.6, 2 * T + 1.0][gc_]
                gap = max(gap, 0.05)
                classes.append(gc_)
                if gc_ == 2:
                    w.probe('gap_just_below')
                    nontrivial = True
                elif gc_ == 3:
                    w.probe('gap_just_above')
                    nontrivial = True
                t += gap
                c['gaps'].append(round(gap, 3))
                if role == 'tunnel':
                    act = ['c_send', 'o_send', 'pause'][tape.weighted([3, 3, 2], 'act')]
                    if act == 'c_send':
                        script += [('at', t), ('send', b'c' * (1 + tape.draw(40, 'n')), 'burst')]
                    elif act == 'o_send':
                        oscript += [('at', t), ('send', b'o' * (1 + tape.draw(40, 'n')), 'burst')]
                        w.probe('upstream_only_activity')
                    else:
                        pl = [T - 0.5, T + 0.5, T + 2.5][tape.draw(3, 'pauselen')]
                        if pl > T:
                            w.probe('pending_output_beyond_timeout')
                            nontrivial = True
                        script += [('at', t), ('pause_read',), ('at', t + pl), ('resume_read',)]
                        oscript += [('at', t + 0.01), ('send', b'P' * ((cap_c * 4 + 17) if not front_tls else 40000), 'burst')]
                        t += pl
                elif role == 'keepalive':
                    req = b'GET http://%s/y%d HTTP/1.1\r\nHost: %s\r\n\r\n' % (ip.encode(), e, ip.encode())
                    nreq += 1
                    script += [('at', t), ('send', req, 'burst'),
                               ('wait_rx', (lambda n: (lambda p: count_responses(bytes(p.rx)) >= n))(nreq))]
                elif role == 'web':
                    req = b'GET /web HTTP/1.1\r\nHost: l\r\nX-Req-Tag: t%d\r\n\r\n' % e
                    nreq += 1
                    script += [('at', t), ('send', req, 'burst'),
                               ('wait_rx', (lambda n: (lambda p: count_responses(bytes(p.rx)) >= n))(nreq))]
                else:
                    script += [('at', t), ('send', b'X-B%d: 2\r\n' % e, 'burst')]
            script += [('wait_eof',), ('close',)]
            states.add(hash((role, threaded, T, tuple(classes))) & 0xffffffff)
            horizon = max(horizon, t)
            if role in ('tunnel', 'chatty', 'slow_upstream', 'keepalive', 'half_request'):
                if role in ('tunnel', 'chatty', 'slow_upstream'):
                    osc = (lambda s: (lambda i: list(s) + [('wait_eof',), ('close',)]))(oscript)
                    if role == 'slow_upstream':
                        c['origin'] = Origin(w, ip, 443, osc, name='o%d' % k, cap_in=64)
                    else:
                        c['origin'] = Origin(w, ip, 443, osc, name='o%d' % k)
                else:
                    def responder(peer: Any, info: Dict[str, Any]) -> List[Any]:
                        return [('send', RESP, 'burst')]
                    c['origin'] = Origin(w, ip, 80, lambda i: [('serve', responder, 100), ('wait_eof',), ('close',)],
                                         name='o%d' % k)
            cl = Peer(w, 'c%d' % k, script, read_mode='eager')
            c['client'] = cl
            conn_fn = h.connector(cap_to_proxy=65536, cap_to_client=cap_c, track_io=True)

            def connect(peer: Any, c: Dict[str, Any] = c, conn_fn: Any = conn_fn) -> Any:
                a = conn_fn(peer)
                b = h.accepted[-1]
                c['b'] = b
                c['t_accept'] = w.now
                c['pz_since'] = w.now

                def on_end(st: Any, c: Dict[str, Any] = c) -> None:
                    c['ended'] = w.now
                    last = last_io(c)
                    pend = pending(c)
                    w.probe('reaped')
                    if w.failures:
                        return
                    if pend > 0:
                        w.fail('closed_with_pending_output', c['role'],
                               'connection %d closed %.3f s after its last client-side I/O with %d bytes of upstream data '
                               'not yet written to the client (timeout %s)' % (c['k'], w.now - last, pend, T))
                    elif w.now - last <= T - SAFETY_TOL:
                        w.fail('closed_while_active', c['role'],
                               'connection %d closed only %.3f s after its last client-side I/O (timeout %s s, threaded=%s)'
                               % (c['k'], w.now - last, T, threaded))
                b.on_end = on_end
                return a
            cl.connect_fn = connect
            conns.append(c)

        def last_io(c: Dict[str, Any]) -> float:
            b = c['b']
            io = b.io_times
            for i in range(len(io) - 1, -1, -1):
                if front_tls and io[i][1] == 'send' and io[i][2] < 64 and w.now - io[i][0] < 0.001:
                    continue        # the TLS close_notify the proxy writes as part of closing is not client traffic
                if io[i][2] > 0:
                    return max(io[i][0], c['t_accept'])
            return c['t_accept']

        def pending(c: Dict[str, Any]) -> int:
            """Upstream bytes the proxy has read but not yet written to the client."""
            o = c.get('origin')
            if o is None or not o.conns or c['role'] == 'half_request':
                return 0
            a = o.conns[0].st.peer       # proxy side of the upstream connection
            if a is None:
                return 0
            consumed = a.read_total      # what the proxy really read (bytes still queued, or discarded by close, do not count)
            sent = c['b'].tx_total
            if c['role'] in ('tunnel', 'chatty', 'slow_upstream'):
                ack = c.get('ack')
                if ack is None:
                    i = bytes(c['client'].rx).find(b'\r\n\r\n')
                    ack = i + 4 if i >= 0 else len(ACK)
                    if i >= 0:
                        c['ack'] = ack
                sent = max(0, sent - ack)
            return max(0, consumed - sent)

        def hook(sel: Any) -> None:
            # (with a TLS front the bytes on the client socket are records, not payload: 'pending' is then only a lower bound,
            # good for the safety checks at the moment of a close, not for deciding that a connection should have been reaped)
            if w.failures or front_tls:
                return
            now = w.now
            for c in conns:
                if c['b'] is None or c['ended'] is not None:
                    continue
                if pending(c) > 0:
                    c['pz_since'] = now
                    continue
                ref = max(last_io(c), c['pz_since'])
                if now - ref > T + B:
                    w.fail('not_reaped', c['role'],
                           'connection %d idle with nothing pending for %.3f s, timeout %s s + bound %.3f s, still open '
                           '(threaded=%s)' % (c['k'], now - ref, T, B, threaded))
                    return
        w.select_hook = hook
        w.settle(T + B + 2.0, horizon + 4 * T + 60.0)
        w.select_hook = None
        if not threaded:
            scen.executor_check(w, h)
        if not w.failures and not w.hung:
            for c in conns:
                if c['b'] is not None and c['ended'] is None and front_tls:
                    continue
                if c['b'] is not None and c['ended'] is None:
                    w.fail('not_reaped', c['role'], 'connection %d still open at the end of the run (last client-side I/O at '
                           '%.3f, now %.3f, timeout %s)' % (c['k'], last_io(c), w.now, T))
                    break
                cl = c['client']
                if c['b'] is not None and not (cl.saw_eof or cl.saw_reset):
                    w.fail('no_eof', c['role'], 'client %d never saw end-of-stream' % c['k'])
                    break
        res.nontrivial = nontrivial
        res.features = g.features
        res.states = states
        res.scenario = {'timeout': T, 'threaded': threaded, 'conns': [{'role': c['role'], 'gaps': c['gaps']} for c in conns],
                        'opts': {k: repr(v) for k, v in opts.items()}}
        return scen.end_run(w, h, res)
