"""C04  Each request on a persistent connection is answered in order by the right origin."""
from typing import Any, Dict, FrozenSet, List, Optional, Tuple

from . import Gen, Result

ID = 'C04'
TITLE = 'Each request on a persistent connection is answered in order by the right origin'
RULE = ('one run = 1-5 tagged requests on one client connection through the forward proxy (1-3 origins), the '
        'built-in web server (2-4 generated route plugins) or the reverse proxy (generated route table), '
        'packed sequentially / pipelined one per segment / several per segment / split anywhere, with drawn '
        'socket capacities and peer schedules; the client byte stream is parsed by h11 and every response is '
        'matched to its request (tag) and to the origin or route the request names; non-trivial = at least two '
        'requests on the connection; distinct = distinct event-log digests')
PROBES = ['forward', 'web', 'reverse', 'sequential', 'pipelined', 'coalesced', 'split',
          'different_origin', 'different_route', 'with_body', 'explicit_keep_alive']
COMPONENTS = {
    'real': ['proxy/http/handler.py', 'proxy/http/proxy/server.py', 'proxy/http/server/web.py',
             'proxy/http/server/reverse.py', 'proxy/core/base/tcp_upstream.py', 'proxy/http/parser/*',
             'proxy/core/work/threadless.py', 'proxy/core/connection/*.py'],
    'stub': ['kernel', 'client and origin peers', 'generated route / reverse-proxy plugins (derive from the real base classes)'],
}
ASSUMPTIONS = ['all requests are HTTP/1.1 keep-alive, so neither side is entitled to close before the last response']
TIERS = {
    'quick': {'runs': 9000, 'budget_s': 40, 'max_body': 200},
    'thorough': {'runs': 900000, 'budget_s': 900, 'max_body': 8000},
}


def count_responses(rx: bytes) -> int:
    from ..actors import split_http_message
    n = 0
    pos = 0
    while True:
        r = split_http_message(rx, pos, is_response=True)
        if r is None:
            return n
        pos = r[0]
        n += 1


def responses_at_least(n: int) -> Any:
    """Wait condition 'n complete responses received'.  It is evaluated at every scheduler step, so the count is cached per
    received length (re-splitting a large or, with broken code, ever-growing stream at each step is quadratic)."""
    memo = {'len': -1, 'n': 0, 'pos': 0}

    def cond(p: Any) -> bool:
        if len(p.rx) != memo['len']:
            from ..actors import split_http_message
            memo['len'] = len(p.rx)
            rx = bytes(p.rx[memo['pos']:memo['pos'] + (1 << 20)])      # continue after the last complete response
            off = 0
            while True:
                r = split_http_message(rx, off, is_response=True)
                if r is None:
                    break
                off = r[0]
                memo['n'] += 1
            memo['pos'] += off
        return memo['n'] >= n
    return cond


def run_one(tape: Any, cfg: Dict[str, Any], forbid: FrozenSet[str] = frozenset()) -> Result:
    from ..actors import Origin, Peer
    from ..harness import L1, make_flags
    from ..httpgen import h11_parse_requests, h11_parse_responses
    from ..kernel import World
    from ..plugins import make_reverse_plugin, make_web_route_plugin
    from .. import scen

    g = Gen(tape, forbid)
    res = Result()
    with World(tape) as w:
        scen.sched_swarm(w, tape)
        role = ['forward', 'web', 'reverse'][tape.weighted([3, 2, 2], 'role')]
        w.probe(role)
        nreq = 1 + tape.weighted([1, 3, 2, 1, 1], 'nreq')
        ntargets = 1 + tape.draw(3, 'ntargets')
        if role == 'web':
            ntargets = 2 + tape.draw(3, 'nroutes')
        # which target each request names
        names = []
        for i in range(nreq):
            t = tape.draw(ntargets, 'target')
            names.append(t)
        multi_target = len(set(names)) > 1
        feat = {'forward': 'different_origin', 'web': 'different_route', 'reverse': 'different_route'}[role]
        if multi_target and not g.note(feat):
            names = [names[0]] * nreq
            multi_target = False
        if multi_target:
            w.probe(feat)
        if role == 'reverse' and nreq > 1 and not g.note('reverse_followup'):
            nreq = 1
            names = names[:1]
        # ---- build requests ---------------------------------------------------
        reqs: List[bytes] = []
        tags: List[bytes] = []
        bodies: List[bytes] = []
        for i in range(nreq):
            tag = b't%d' % i
            tags.append(tag)
            t = names[i]
            with_body = tape.coin(0.3, 'withbody')
            body = scen.body_bytes(tape, 1 + tape.draw(cfg['max_body'], 'blen'), 'rb') if with_body else b''
            bodies.append(body)
            if with_body:
                w.probe('with_body')
            method = b'POST' if with_body else b'GET'
            if role == 'forward':
                target = b'http://o%d.example/p%d' % (t, i)
                host = b'o%d.example' % t
            elif role == 'web':
                target = b'/r%d/x%d' % (t, i)
                host = b'localhost'
            else:
                target = b'/rp%d/y%d' % (t, i)
                host = b'localhost'
            r = method + b' ' + target + b' HTTP/1.1\r\nHost: ' + host + b'\r\nX-Req-Tag: ' + tag + b'\r\n'
            # an explicit keep-alive token in the spellings clients use says the same as no Connection header at all
            ck = tape.weighted([4, 1, 1, 1], 'connhdr')
            if ck:
                r += [b'Connection: keep-alive\r\n', b'Connection: Keep-Alive\r\n', b'connection: KEEP-ALIVE\r\n'][ck - 1]
                w.probe('explicit_keep_alive')
            if with_body:
                r += b'Content-Length: %d\r\n' % len(body)
            r += b'\r\n' + body
            reqs.append(r)
        packing = ['sequential', 'pipelined', 'coalesced', 'split'][tape.weighted([3, 2, 2, 2], 'packing')]
        if nreq == 1 and packing in ('pipelined', 'coalesced'):
            packing = 'sequential'
        stream = b''.join(reqs)
        bounds = []
        acc = 0
        for r in reqs[:-1]:
            acc += len(r)
            bounds.append(acc)
        cuts: List[int] = []
        if packing == 'split':
            n = 1 + tape.small(6, 'ncuts')
            cuts = sorted({1 + tape.draw(len(stream) - 1, 'cut') for _ in range(n)}) if len(stream) > 1 else []
        spans = False
        if packing == 'coalesced' and nreq > 1:
            spans = True
        if packing == 'split' and any(b not in cuts for b in bounds):
            spans = True
        if spans and not g.note('multi_request_segment'):
            # neutraliser: one request per segment
            if packing == 'coalesced':
                packing = 'pipelined'
            else:
                cuts = sorted(set(cuts) | set(bounds))
            spans = False
        w.probe(packing)
        total = len(stream) + nreq * 300
        floor = scen.unit_floor(total, 400)
        caps = [scen.pick_cap(tape, floor, 'cap%d' % i) for i in range(4)]
        opts = scen.proxy_opts(tape, floor)
        resp_pad = [0, 5, 300][tape.draw(3, 'resp-pad')]

        # ---- system under test ---------------------------------------------------
        route_log: List[Any] = []
        origins: List[Any] = []

        def mk_origin(k: int, host: str, ip: str, port: int = 80) -> Any:
            w.dns[host] = [ip]

            def responder(peer: Any, info: Dict[str, Any]) -> List[Any]:
                tg = b'-'
                for hn, hv in info['headers']:
                    if hn.lower() == b'x-req-tag':
                        tg = hv
                body = b'o%d:' % k + tg + b'.' * resp_pad
                resp = (b'HTTP/1.1 200 OK\r\nX-Origin: o%d\r\nX-Tag: ' % k + tg +
                        b'\r\nContent-Length: %d\r\n\r\n' % len(body) + body)
                return [('send', resp, 'dribble', 64)]
            o = Origin(w, ip, port, lambda i: [('serve', responder, 100)], name='o%d' % k,
                       cap_in=caps[0], cap_out=caps[1], read_mode='chunky')
            origins.append(o)
            return o

        if role == 'forward':
            for k in range(ntargets):
                mk_origin(k, 'o%d.example' % k, '10.0.0.%d' % (k + 1))
            flags = make_flags(threadless=True, local_executor=1, timeout=3600, **opts)
        elif role == 'web':
            plugs = [make_web_route_plugin(k, r'/r%d/' % k,
                                           (lambda kk: (lambda tg: b'route%d:' % kk + tg + b'.' * resp_pad))(k),
                                           route_log) for k in range(ntargets)]
            flags = make_flags(threadless=True, local_executor=1, timeout=3600, enable_web_server=True,
                               plugins=plugs, **opts)
        else:
            table = []
            for k in range(ntargets):
                mk_origin(k, 'o%d.example' % k, '10.0.0.%d' % (k + 1))
                table.append((r'/rp%d/' % k, [b'http://o%d.example/base%d' % (k, k)]))
            plug = make_reverse_plugin(table)
            flags = make_flags(['--enable-reverse-proxy'], threadless=True, local_executor=1, timeout=3600,
                               plugins=[plug], **opts)
        h = L1(w, flags)

        # ---- client -----------------------------------------------------------------
        script: List[Any] = [('connect',)]
        if packing == 'sequential':
            for i, r in enumerate(reqs):
                script.append(('send', r, 'burst'))
                script.append(('wait_rx', responses_at_least(i + 1)))
        elif packing == 'pipelined':
            for i, r in enumerate(reqs):
                script.append(('send', r, 'burst'))
                script.append(('wait_drain',))
        elif packing == 'coalesced':
            script.append(('send', stream, 'burst'))
        else:
            script.append(('send', stream, 'cuts', cuts))
        script.append(('wait_rx', responses_at_least(nreq)))
        cl = Peer(w, 'client', script, read_mode='chunky')
        # invariants during the run: nobody receives more than was ever produced for it (duplicated data grows without bound)
        max_client = nreq * (resp_pad + 600) + 1024
        max_origin = 2 * len(stream) + nreq * 400 + 1024

        def client_rx(p: Any) -> None:
            if len(p.rx) > max_client and not w.failures:
                w.fail('extra_response', role, 'client has received %d bytes, %d requests can produce at most %d'
                       % (len(p.rx), nreq, max_client))
        cl.on_rx = client_rx

        def origin_rx(p: Any) -> None:
            if len(p.rx) > max_origin and not w.failures:
                w.fail('origin_got_wrong_requests', role, 'an origin connection has received %d bytes, the client sent %d in all'
                       % (len(p.rx), len(stream)))
        for o in origins:
            o.on_rx = origin_rx
        # the client socket must be able to hold a whole request when packing demands one segment
        c2p = caps[2]
        if packing in ('coalesced',):
            c2p = max(c2p, len(stream))
        cl.connect_fn = h.connector(cap_to_proxy=c2p, cap_to_client=caps[3])

        w.settle(1.5, 300.0)
        scen.executor_check(w, h)

        # ---- oracle --------------------------------------------------------------------
        if not w.failures and not w.hung:
            rx = bytes(cl.rx)
            p = h11_parse_responses(rx, False, [b'GET'] * (nreq + 2))
            final = [r for r in p['responses'] if not r.get('interim')]
            if p['error']:
                w.fail('client_stream_malformed', role, 'h11: %s; bytes=%r' % (p['error'], rx[:200]))
            else:
                for i in range(nreq):
                    if i >= len(final) or not final[i]['complete']:
                        why = 'connection closed by proxy' if (cl.saw_eof or cl.saw_reset) else 'no more data'
                        w.fail('missing_response', role,
                               'request %d of %d (packing %s) got no complete response (%s); client received %d responses'
                               % (i, nreq, packing, why, len(final)))
                        break
                    hd = {k.lower(): v for k, v in final[i]['headers']}
                    exp_origin = (b'o%d' if role != 'web' else b'route%d') % names[i]
                    if hd.get(b'x-tag') != tags[i]:
                        w.fail('wrong_order', role, 'response %d carries tag %r, expected %r' % (i, hd.get(b'x-tag'), tags[i]))
                        break
                    if hd.get(b'x-origin') != exp_origin:
                        w.fail('wrong_origin', role, 'response %d (tag %r) was produced by %r, request names %r'
                               % (i, tags[i], hd.get(b'x-origin'), exp_origin))
                        break
                if not w.failures and len(final) > nreq:
                    w.fail('extra_response', role, '%d responses for %d requests' % (len(final), nreq))
                if not w.failures and (cl.saw_eof or cl.saw_reset):
                    w.fail('closed_keepalive', role, 'proxy closed a keep-alive connection nobody asked to close')
            # each origin received exactly the requests addressed to it, in order
            if not w.failures and role != 'web':
                for k, o in enumerate(origins):
                    want = [tags[i] for i in range(nreq) if names[i] == k]
                    got: List[bytes] = []
                    for c in o.conns:
                        pr = h11_parse_requests(bytes(c.rx))
                        if pr['error']:
                            w.fail('origin_bytes_malformed', role, pr['error'])
                            break
                        for r in pr['requests']:
                            hd = {a.lower(): b for a, b in r['headers']}
                            got.append(hd.get(b'x-req-tag', b'?'))
                    if not w.failures and got != want:
                        w.fail('origin_got_wrong_requests', role, 'origin o%d received %r, addressed to it: %r' % (k, got, want))
                        break
            if not w.failures and role == 'web':
                got_r = [(a, b) for a, b, *_ in route_log]
                want_r = [('route%d' % names[i], tags[i]) for i in range(nreq)]
                if got_r != want_r:
                    w.fail('route_got_wrong_requests', role, 'routes handled %r, expected %r' % (got_r, want_r))
        res.nontrivial = nreq >= 2
        res.features = g.features
        res.scenario = {'role': role, 'nreq': nreq, 'targets': names, 'packing': packing, 'cuts': cuts[:20],
                        'bounds': bounds, 'caps': caps, 'opts': opts,
                        'requests': [r[:160].decode('latin-1') for r in reqs]}
        return scen.end_run(w, h, res)
