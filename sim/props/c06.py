"""C06  Any input yields service, a well-formed error response, or a clean close."""
import os
from typing import Any, Dict, FrozenSet, List, Optional, Tuple

from . import Gen, Result

ID = 'C06'
TITLE = 'Any input yields service, a well-formed error response, or a clean close'
RULE = ('one run = one client byte string (random bytes; a grammar-valid request in origin/absolute/authority '
        'form that is kept, mutated, truncated or concatenated; hand-written edge cases: non-numeric / negative '
        '/ huge lengths, unknown schemes, methods and versions, bare LF, missing colon, non-UTF-8 bytes) '
        'delivered in tape-chosen segments to the real executor with forward proxy, web server (generated '
        'routes answering through okResponse compressed and plain and the redirect builders) and static '
        'server enabled, origins echo or refuse; everything the client receives is judged by h11; '
        'non-trivial = the input was not an unmodified valid request; distinct = distinct event-log digests')
PROBES = ['framing', 'random_bytes', 'mutated', 'truncated', 'edge_case', 'concatenated', 'valid', 'got_400', 'got_404',
          'got_502', 'got_200', 'got_redirect', 'gzip_response', 'no_response_waiting', 'closed_without_response',
          'segmented', 'relay_cut_by_close']
COMPONENTS = {
    'real': ['proxy/http/handler.py', 'proxy/http/parser/*', 'proxy/http/url.py', 'proxy/http/responses.py',
             'proxy/common/utils.py', 'proxy/http/exception/*', 'proxy/http/proxy/server.py',
             'proxy/http/server/web.py', 'proxy/http/server/plugin.py', 'proxy/core/work/threadless.py'],
    'stub': ['kernel', 'peers', 'generated web routes (call the real response builders)'],
}
ASSUMPTIONS = ['origins and routes emit only 2xx/3xx responses of their own, so every 4xx/5xx is the proxy\'s',
               '"for all arguments of the response builders" is decided only for arguments that reach the wire '
               'through these routes; direct fuzzing of builder arguments is a pure-function test and not claimed',
               'a complete request is one h11 (server role) accepts as complete; for anything else "still waiting" is allowed']
TIERS = {
    'quick': {'runs': 9000, 'budget_s': 40},
    'thorough': {'runs': 900000, 'budget_s': 900},
}

EDGE = [
    b'GET / HTTP/1.1\r\nHost: x\r\nContent-Length: abc\r\n\r\n',
    b'POST /ok-small HTTP/1.1\r\nHost: x\r\nContent-Length: -1\r\n\r\n',
    b'POST http://up.example/ HTTP/1.1\r\nHost: up.example\r\nContent-Length: 99999999999999999999\r\n\r\nabc',
    b'GET ftp://up.example/ HTTP/1.1\r\nHost: up.example\r\n\r\n',
    b'GET icap://up.example/ HTTP/1.1\r\n\r\n',
    b'BREW /pot HTTP/1.1\r\nHost: x\r\n\r\n',
    b'GET / HTTP/2.0\r\nHost: x\r\n\r\n',
    b'GET /\r\n\r\n',
    b'GET  /  HTTP/1.1\r\nHost: x\r\n\r\n',
    b'GET / HTTP/1.1\nHost: x\n\n',
    b'GET / HTTP/1.1\r\nHost x\r\n\r\n',
    b'GET / HTTP/1.1\r\n' + b'X-Big: ' + b'a' * 3000 + b'\r\nHost: x\r\n\r\n',
    b'GET /\xff\xfe HTTP/1.1\r\nHost: x\r\n\r\n',
    b'GET http://up.ex\xc3ample/ HTTP/1.1\r\nHost: x\r\n\r\n',
    b'CONNECT up.example HTTP/1.1\r\n\r\n',
    b'CONNECT up.example:notaport HTTP/1.1\r\n\r\n',
    b'CONNECT :443 HTTP/1.1\r\n\r\n',
    b'GET http://:80/ HTTP/1.1\r\n\r\n',
    b'GET http://user@up.example/ HTTP/1.1\r\nHost: up.example\r\n\r\n',
    b'GET http://[::1/ HTTP/1.1\r\n\r\n',
    b'\r\n\r\n',
    b'GET / HTTP/1.1\r\nTransfer-Encoding: chunked\r\nHost: x\r\n\r\nzz\r\n',
    b'GET /redirect HTTP/1.0\r\n\r\n',
    b'OPTIONS * HTTP/1.1\r\nHost: x\r\n\r\n',
    b'GET /static/../hello.txt HTTP/1.1\r\nHost: x\r\n\r\n',
    b'SIP/2.0 200 OK\r\n\r\n',
    b'\x16\x03\x01\x02\x00\x01\x00\x01\xfc\x03\x03' + b'\x00' * 40,
]


CL_VALUES = [b'0', b'3', b'10', b'-5', b'+5', b'5, 5', b'abc', b'', b'99999999999999999999', b'0x5', b' 5 ', b'5.0']
CHUNK_SIZES = [b'-5', b'-0', b'+3', b'0x3', b'3 ', b' 3', b'zz', b'', b'ffffffffffffffffff', b'3;x=y', b'03', b'3\t']


def framing_case(tape: Any) -> bytes:
    """Requests whose message framing is unusual, conflicting or invalid (duplicated / odd Content-Length values,
    Content-Length together with chunked, odd chunk-size lines)."""
    target = [b'/ok-small', b'http://up.example/f', b'http://up.example:8080/f'][tape.draw(3, 'ftarget')]
    body = b'abcde'
    v = tape.draw(5, 'fvariant')
    hdrs = [b'Host: up.example']
    if v == 0:      # two Content-Length lines
        a = CL_VALUES[tape.draw(len(CL_VALUES), 'cl1')]
        b = CL_VALUES[tape.draw(len(CL_VALUES), 'cl2')]
        hdrs += [b'Content-Length: ' + a, [b'Content-Length: ', b'content-length: ', b'CONTENT-LENGTH:'][tape.draw(3, 'clcase')] + b]
        payload = body
    elif v == 1:    # one odd Content-Length
        hdrs += [b'Content-Length: ' + CL_VALUES[tape.draw(len(CL_VALUES), 'cl1')]]
        payload = body
    elif v == 2:    # Content-Length and chunked together
        hdrs += [b'Content-Length: ' + CL_VALUES[tape.draw(len(CL_VALUES), 'cl1')], b'Transfer-Encoding: chunked']
        if tape.coin(0.5, 'order'):
            hdrs[-2], hdrs[-1] = hdrs[-1], hdrs[-2]
        payload = b'5\r\nabcde\r\n0\r\n\r\n'
    elif v == 3:    # odd chunk-size line
        hdrs += [b'Transfer-Encoding: ' + [b'chunked', b'Chunked', b'gzip, chunked', b'chunked, gzip'][tape.draw(4, 'te')]]
        sz = CHUNK_SIZES[tape.draw(len(CHUNK_SIZES), 'csz')]
        payload = sz + b'\r\nabc\r\n' + [b'0\r\n\r\n', b'0\r\n', b'', b'-0\r\n\r\n'][tape.draw(4, 'cend')]
    else:           # chunked with a bad later chunk
        hdrs += [b'Transfer-Encoding: chunked']
        sz = CHUNK_SIZES[tape.draw(len(CHUNK_SIZES), 'csz')]
        payload = b'3\r\nabc\r\n' + sz + b'\r\nde\r\n0\r\n\r\n'
    return b'POST ' + target + b' HTTP/1.1\r\n' + b'\r\n'.join(hdrs) + b'\r\n\r\n' + payload


def setup_worker(job: Dict[str, Any]) -> None:
    d = os.path.join(job['scratch'], 'static')
    os.makedirs(d, exist_ok=True)
    with open(os.path.join(d, 'hello.txt'), 'wb') as f:
        f.write(b'hello static world, long enough to be compressed by default settings\n' * 3)
    with open(os.path.join(d, 'tiny.txt'), 'wb') as f:
        f.write(b'tiny')
    import random
    with open(os.path.join(d, 'noise.bin'), 'wb') as f:
        f.write(random.Random(6).randbytes(3000))       # does not shrink under gzip


def _routes(log: List[Any]) -> List[type]:
    from proxy.http.responses import okResponse, permanentRedirectResponse, seeOthersResponse
    from proxy.http.server import HttpWebServerBasePlugin, httpProtocolTypes

    class BuilderRoutes(HttpWebServerBasePlugin):    # type: ignore[misc]
        def routes(self) -> List[Tuple[int, str]]:
            return [(httpProtocolTypes.HTTP, r'/ok-small$'), (httpProtocolTypes.HTTP, r'/ok-big$'),
                    (httpProtocolTypes.HTTP, r'/ok-empty$'), (httpProtocolTypes.HTTP, r'/ok-plain$'),
                    (httpProtocolTypes.HTTP, r'/redirect$'), (httpProtocolTypes.HTTP, r'/seeother$'),
                    (httpProtocolTypes.HTTP, r'/ok-plain-big$'), (httpProtocolTypes.HTTP, r'/ok-noise$'),
                    (httpProtocolTypes.HTTP, r'/ok-own-length$')]

        def handle_request(self, request: Any) -> None:
            p = (request.path or b'/').split(b'?')[0]
            log.append(p)
            if p == b'/ok-small':
                self.client.queue(okResponse(content=b'small', headers={b'X-R': b'1'}))
            elif p == b'/ok-big':
                self.client.queue(okResponse(content=b'big body ' * 200, headers={b'Content-Type': b'text/plain'}))
            elif p == b'/ok-empty':
                self.client.queue(okResponse())
            elif p == b'/ok-plain':
                self.client.queue(okResponse(content=b'plain ' * 100, compress=False))
            elif p == b'/ok-plain-big':
                self.client.queue(okResponse(content=b'0123456789' * 500, compress=False, headers={b'X-R': b'big'}))
            elif p == b'/ok-noise':
                import random
                self.client.queue(okResponse(content=random.Random(66).randbytes(4000)))
            elif p == b'/ok-own-length':
                # a caller that supplies a Content-Length of its own (the length of what it passes in): the builder decides what
                # the body on the wire is (compressed or not), so the header has to describe that
                body = b'caller supplied length ' * 30
                self.client.queue(okResponse(content=body, headers={b'Content-Length': b'%d' % len(body), b'X-R': b'own'}))
            elif p == b'/redirect':
                self.client.queue(permanentRedirectResponse(b'http://elsewhere.example/x'))
            else:
                self.client.queue(seeOthersResponse(b'/ok-small'))
    return [BuilderRoutes]


def run_one(tape: Any, cfg: Dict[str, Any], forbid: FrozenSet[str] = frozenset()) -> Result:
    from ..actors import Origin, Peer
    from ..harness import L1, make_flags, scratch_dir
    from ..httpgen import gen_cuts, gen_request, h11_parse_requests, h11_parse_responses
    from ..kernel import World
    from .. import scen

    g = Gen(tape, forbid)
    res = Result()
    with World(tape) as w:
        scen.sched_swarm(w, tape)
        w.dns['up.example'] = ['10.0.0.1']
        # ---- input --------------------------------------------------------------
        kind = ['valid', 'mutated', 'truncated', 'random_bytes', 'edge_case', 'concatenated', 'framing'][
            tape.weighted([2, 4, 3, 2, 4, 1, 3], 'kind')]

        def valid_req() -> bytes:
            form = ['origin', 'absolute', 'connect'][tape.weighted([3, 3, 1], 'form')]
            path = None
            if form == 'origin':
                path = [b'/ok-small', b'/ok-big', b'/ok-empty', b'/ok-plain', b'/redirect', b'/seeother',
                        b'/hello.txt', b'/tiny.txt', b'/nosuch', b'/', b'/ok-plain-big', b'/ok-noise',
                        b'/noise.bin', b'/ok-own-length'][tape.draw(14, 'wpath')]
            from ..httpgen import METHODS
            raw, _ = gen_request(tape, g, form=form, host=b'up.example',
                                 port=[None, 80, 8080][tape.draw(3, 'port')] if form != 'connect' else 443,
                                 max_body=120, path=path,
                                 # the generated routes answer every method with a body; HEAD to them says nothing about the proxy
                                 methods=[m for m in METHODS if m != b'HEAD'] if form == 'origin' else None)
            return raw
        if kind == 'random_bytes':
            data = scen.body_bytes(tape, 1 + tape.draw(300, 'rlen'), 'rnd')
        elif kind == 'edge_case':
            data = EDGE[tape.draw(len(EDGE), 'edge')]
        elif kind == 'concatenated':
            data = valid_req() + valid_req()
        elif kind == 'framing':
            data = framing_case(tape)
        else:
            data = valid_req()
            if kind == 'mutated':
                b2 = bytearray(data)
                for _ in range(1 + tape.draw(3, 'nmut')):
                    i = tape.draw(len(b2), 'mpos')
                    op = tape.draw(4, 'mop')
                    if op == 0:
                        b2[i] = tape.draw(256, 'mbyte')
                    elif op == 1:
                        del b2[i]
                    elif op == 2:
                        b2[i:i] = bytes([tape.draw(256, 'mbyte')])
                    else:
                        b2[i:i + 1] = [b'\r\n', b'\n', b' ', b':', b'\x00', b'%'][tape.draw(6, 'mtok')]
                    if not b2:
                        b2 = bytearray(b'x')
                data = bytes(b2)
            elif kind == 'truncated':
                data = data[:tape.draw(len(data), 'trunc')] or b'G'
        # derived features (targets of known findings)
        from ..actors import split_http_message
        sp = split_http_message(data, 0)
        if sp is not None and sp[0] < len(data):
            if g.note('multi_request_segment'):
                pass
            else:
                data = data[:sp[0]]
        else:
            # the proxy ends the header block at the first line that is empty after stripping white space; bytes after
            # that point are, for it, "further bytes after a complete body-less request" (same known finding)
            pos = data.find(b'\r\n')
            while pos >= 0:
                nxt = data.find(b'\r\n', pos + 2)
                if nxt < 0:
                    break
                if data[pos + 2:nxt].strip() == b'':
                    lenient_end = nxt + 2
                    head = data[:lenient_end].lower()
                    if lenient_end < len(data) and b'content-length' not in head and b'transfer-encoding' not in head:
                        if not g.note('multi_request_segment'):
                            data = data[:lenient_end]
                    break
                pos = nxt
        if data.startswith(b'HEAD '):
            if not g.note('head_request'):
                data = b'GET ' + data[5:]
        w.probe(kind)
        cuts = gen_cuts(tape, len(data), [i + 1 for i in range(len(data)) if data[i:i + 1] == b'\n'][:12])
        if cuts:
            w.probe('segmented')
        caps = [scen.pick_cap(tape, 16, 'cap%d' % i) for i in range(4)]
        opts = scen.proxy_opts(tape, 16)
        route_log: List[Any] = []
        flags = make_flags(threadless=True, local_executor=1, timeout=3600, enable_web_server=True,
                           enable_static_server=True, static_server_dir=os.path.join(scratch_dir(), 'static'),
                           min_compression_length=[20, 0, 100000][tape.draw(3, 'mincomp')],
                           plugins=_routes(route_log), **opts)
        h = L1(w, flags)
        up_mode = ['accept', 'refuse'][tape.draw(2, 'upmode')]

        def responder(peer: Any, info: Dict[str, Any]) -> List[Any]:
            body = b'echo:' + info['start_line'][:40]
            return [('send', b'HTTP/1.1 200 OK\r\nContent-Length: %d\r\n\r\n' % len(body) + body, 'burst')]
        origins: List[Any] = []
        for port in (80, 8080):
            origins.append(Origin(w, '10.0.0.1', port, lambda i: [('serve', responder, 10)], name='up%d' % port,
                   mode=up_mode, cap_in=caps[0], cap_out=caps[1]))
        Origin(w, '10.0.0.1', 443, lambda i: [('serve', responder, 10)], name='up443', mode=up_mode)
        script: List[Any] = [('connect',)]
        script.append(('send', data, 'cuts', cuts) if cuts else ('send', data, 'burst'))
        cl = Peer(w, 'client', script, read_mode='chunky')
        cl.connect_fn = h.connector(cap_to_proxy=max(caps[2], 64), cap_to_client=caps[3])
        w.settle(1.5, 120.0)
        scen.executor_check(w, h)

        # ---- oracle -------------------------------------------------------------------
        if not w.failures and not w.hung:
            rx = bytes(cl.rx)
            closed = cl.saw_eof or cl.saw_reset
            first_tok = data.split(b' ', 1)[0]
            method = first_tok if first_tok in (b'HEAD', b'CONNECT') else b'GET'
            p = h11_parse_responses(rx, closed, [method] * 4)
            finals = [r for r in p['responses'] if not r.get('interim')]
            # a relay of the origin's response that the proxy cut short by closing (it had decided to reject what the client
            # sent next) is not a response of the proxy's own making; whether relays are complete is C01/C07's question.
            # A single valid request gets no such allowance.
            relay_cut = bool(closed and kind != 'valid' and rx and any(
                len(rx) < len(oc.tx) and bytes(oc.tx).startswith(rx) for o in origins for oc in o.conns))
            if relay_cut:
                w.probe('relay_cut_by_close')
            elif p['error']:
                w.fail('malformed_response', 'h11', 'h11 rejects the proxy output: %s; input=%r output=%r'
                       % (p['error'], data[:100], rx[:200]))
            elif rx and not p['responses']:
                # bytes were emitted but they never amounted to a response head
                w.fail('partial_response' if closed else 'stalled_response', 'header_block',
                       'the proxy sent %d bytes that do not form a complete response head: %r' % (len(rx), rx[-120:]))
            elif finals and not finals[-1]['complete']:
                if closed:
                    w.fail('partial_response', 'closed', 'connection closed inside a response: %r' % rx[-120:])
                else:
                    w.fail('stalled_response', 'open', 'response never completed although the client keeps reading: %r' % rx[-120:])
            elif p['trailing'] and not (method == b'CONNECT' and finals and finals[0]['status'] == 200):
                w.fail('trailing_garbage', 'h11', 'bytes after the last response: %r' % p['trailing'][:60])
            else:
                for r in finals:
                    st = r['status']
                    w.probe('got_%d' % st if st in (400, 404, 502, 200) else 'got_redirect' if st in (303, 308) else 'got_other')
                    hd = {k.lower(): v for k, v in r['headers']}
                    if hd.get(b'content-encoding') == b'gzip':
                        w.probe('gzip_response')
                        import gzip
                        try:
                            gzip.decompress(r['body'])
                        except Exception as e:   # noqa
                            w.fail('bad_gzip_body', 'route', 'advertised gzip body does not decompress: %r' % (e,))
                            break
                    must_close = st >= 400
                    if must_close and r is finals[-1]:
                        if not closed:
                            w.fail('kept_open_after_reject', str(st // 100) + 'xx',
                                   'status %d sent, connection still open %.2f s later; input=%r'
                                   % (st, w.now - (cl.t_last_rx or 0), data[:80]))
                            break
                        if cl.t_eof is not None and cl.t_last_rx is not None and cl.t_eof - cl.t_last_rx > 1.0:
                            w.fail('late_close_after_reject', str(st // 100) + 'xx',
                                   'end-of-stream %.2f s after the last byte' % (cl.t_eof - cl.t_last_rx))
                            break
                if not w.failures and not finals:
                    if closed:
                        w.probe('closed_without_response')
                    else:
                        w.probe('no_response_waiting')
                        ref = h11_parse_requests(data)
                        # h11 tolerates bare LF line endings, proxy.py (like the grammar) does not:
                        # such a head is an incomplete request for it, waiting is allowed
                        head = data.split(b'\r\n\r\n', 1)[0]
                        bare_lf = b'\n' in head.replace(b'\r\n', b'')
                        # (the same leniency exists inside chunked bodies: the request must also be complete for a
                        # splitter that insists on CRLF)
                        strict = split_http_message(data, 0) is not None
                        if not bare_lf and strict and not ref['error'] and ref['requests'] and ref['requests'][0]['complete']:
                            r0 = ref['requests'][0]
                            w.fail('ignored_complete_request', 'waiting',
                                   'a complete request (%s %s) got neither a response nor a close; input=%r'
                                   % (r0['method'], r0['target'], data[:120]))
        res.nontrivial = kind != 'valid'
        res.features = g.features
        res.scenario = {'kind': kind, 'input': data[:400].decode('latin-1'), 'cuts': cuts[:20], 'caps': caps,
                        'opts': opts, 'up_mode': up_mode}
        return scen.end_run(w, h, res)
