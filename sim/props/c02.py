"""C02  Forwarded HTTP request is semantically identical to the client's."""
import base64
from typing import Any, Dict, FrozenSet, List, Tuple

from . import Gen, Result

ID = 'C02'
TITLE = "Forwarded HTTP request is semantically identical to the client's"
RULE = ('one run = 1-3 generated proxy requests (grammar: method, absolute-form target, version, 0-6 header '
        'fields in drawn casing/spacing, optional Proxy-Connection / Proxy-Authorization / operator-disabled '
        'headers, body none / Content-Length / chunked in a drawn chunk layout) sent sequentially on one '
        'keep-alive connection, each cut into tape-chosen segments, through the real executor to a scripted '
        'origin over sockets with drawn capacities; the origin byte stream is parsed by h11 and compared with '
        'the reference transform of what the client sent; non-trivial = some request was delivered in >= 2 '
        'segments or some upstream write was partial; distinct = distinct event-log digests')
PROBES = ['upgrade_followup', 'request_after_declined_upgrade', 'followup_request', 'chunked_request', 'empty_chunked_body', 'auth', 'disabled_headers',
          'segmented_request', 'partial_upstream_write', 'http10']
COMPONENTS = {
    'real': ['proxy/http/handler.py', 'proxy/http/proxy/server.py', 'proxy/http/proxy/auth.py',
             'proxy/http/parser/*', 'proxy/common/utils.py', 'proxy/core/work/threadless.py',
             'proxy/core/connection/*.py'],
    'stub': ['kernel', 'client and origin peers', 'h11 is the reference parser (oracle)'],
}
ASSUMPTIONS = ['header names are case-insensitively unique per request, as the property states',
               'requests on one connection are sent one after the other (each after the previous response); '
               'packing several requests per segment belongs to C04']
TIERS = {
    'quick': {'runs': 9000, 'budget_s': 40, 'max_body': 300},
    'thorough': {'runs': 900000, 'budget_s': 900, 'watchdog_s': 600, 'max_body': 20000},
}
RESP = b'HTTP/1.1 200 OK\r\nContent-Length: 2\r\n\r\nok'
RESP_HEAD = b'HTTP/1.1 200 OK\r\nContent-Length: 2\r\n\r\n'
FRAMING = (b'content-length', b'transfer-encoding')


def run_one(tape: Any, cfg: Dict[str, Any], forbid: FrozenSet[str] = frozenset()) -> Result:
    from ..actors import Origin, Peer
    from ..harness import L1, make_flags
    from ..httpgen import gen_cuts, gen_request, h11_parse_requests
    from ..kernel import World
    from .. import scen

    g = Gen(tape, forbid)
    res = Result()
    with World(tape) as w:
        scen.sched_swarm(w, tape)
        w.dns['up.example'] = ['10.0.0.1']
        nreq = 1 + tape.weighted([3, 2, 1], 'nreq')
        if nreq > 1 and not g.note('followup_request'):
            nreq = 1
        auth = g.feature('auth', 0.3)
        disabled: List[bytes] = []
        if g.feature('disabled_headers', 0.3):
            disabled = [[b'x-trace-id'], [b'cookie', b'x-b'], [b'user-agent']][tape.draw(3, 'disabled')]
        port = [None, 8080, 80][tape.draw(3, 'port')]
        reqs: List[Tuple[bytes, Dict[str, Any]]] = []
        for i in range(nreq):
            extra: List[Tuple[bytes, bytes]] = []
            if auth:
                extra.append(([b'Proxy-Authorization', b'proxy-authorization', b'PROXY-AUTHORIZATION'][tape.draw(3, 'pa-case')],
                              [b'Basic ', b'basic ', b'BASIC '][tape.draw(3, 'scheme-case')] + base64.b64encode(b'user:pass')))
            if g.feature('proxy_connection', 0.3):
                extra.append((b'Proxy-Connection', b'keep-alive'))
            path = [None, b'', b'/', b'?next=/home/index', b'?u=http://x/a/b&k=v'][tape.weighted([6, 1, 1, 1, 1], 'pathkind')]
            methods = [b'GET', b'POST', b'PUT', b'DELETE', b'PATCH', b'OPTIONS', b'HEAD', b'PROPFIND']
            upgrade = i > 0 and g.feature('upgrade_followup', 0.15)
            if upgrade and i < nreq - 1 and not g.note('request_after_declined_upgrade'):
                upgrade = False
            if upgrade:
                # a request asks for a protocol switch (the origin declines with a plain 200): still one request, to be
                # forwarded like any other, and so are the requests after it
                extra = [(b'Connection', b'Upgrade'), (b'Upgrade', b'websocket')] + extra
                methods = [b'GET']
                w.probe('upgrade_followup')
            raw, meta = gen_request(tape, g, form='absolute', host=b'up.example', port=port,
                                    max_body=cfg['max_body'], extra=extra, path=path, methods=methods,
                                    allow_http10=(i == nreq - 1 and not upgrade))
            if upgrade and i < nreq - 1:
                w.probe('request_after_declined_upgrade')
            reqs.append((raw, meta))
        total = sum(len(r) for r, _ in reqs)
        floor = scen.unit_floor(total, 400)
        caps = [scen.pick_cap(tape, floor, 'cap%d' % i) for i in range(4)]
        opts = scen.proxy_opts(tape, floor)
        if auth:
            opts['basic_auth'] = 'user:pass'
            w.probe('auth')
        if disabled:
            opts['disable_headers'] = list(disabled)
            w.probe('disabled_headers')
        flags = make_flags(threadless=True, local_executor=1, timeout=3600, **opts)
        h = L1(w, flags)

        def responder(peer: Any, info: Dict[str, Any]) -> List[Any]:
            m = info['start_line'].split(b' ', 1)[0]
            return [('send', RESP_HEAD if m == b'HEAD' else RESP, 'burst')]

        org = Origin(w, '10.0.0.1', port or 80, lambda i: [('serve', responder, nreq)], name='up',
                     cap_in=caps[0], cap_out=caps[1], read_mode='chunky')
        script: List[Any] = [('connect',)]
        done = 0
        segmented = False
        for raw, meta in reqs:
            cuts = gen_cuts(tape, len(raw), meta['marks'])
            if cuts:
                segmented = True
                script.append(('send', raw, 'cuts', cuts))
            else:
                script.append(('send', raw, 'burst'))
            done += len(RESP_HEAD if meta['method'] == b'HEAD' else RESP)
            script.append(('wait_rx', (lambda n: (lambda p: len(p.rx) >= n))(done)))
            if meta['framing'] == 'chunked':
                w.probe('chunked_request')
                if not meta['body']:
                    w.probe('empty_chunked_body')
            if meta['version'] == b'HTTP/1.0':
                w.probe('http10')
        if nreq > 1:
            w.probe('followup_request')
        if segmented:
            w.probe('segmented_request')
        cl = Peer(w, 'client', script, read_mode='eager')
        cl.connect_fn = h.connector(cap_to_proxy=caps[2], cap_to_client=caps[3])

        w.settle(1.0, 300.0)
        scen.executor_check(w, h)
        if w.stats.get('short_write', 0):
            w.probe('partial_upstream_write')

        # ---- oracle -----------------------------------------------------------
        if not w.failures and not w.hung:
            orx = b''.join(bytes(c.rx) for c in org.conns)
            if len(org.conns) > 1:
                w.fail('extra_upstream_connection', 'c02', '%d upstream connections for one keep-alive client connection' % len(org.conns))
            p = h11_parse_requests(orx)
            if p['error']:
                w.fail('origin_bytes_malformed', 'h11', 'h11 rejects what the origin received: %s; bytes=%r' % (p['error'], orx[:300]))
            else:
                got = p['requests']
                for i, (raw, meta) in enumerate(reqs):
                    pos = 'first' if i == 0 else 'later'
                    if i >= len(got) or not got[i]['complete']:
                        w.fail('request_not_forwarded', '%s:%s' % (pos, meta['framing']),
                               'request %d (%s %s, framing %s, body %d bytes) never arrived completely at the origin; '
                               'origin has %r' % (i, meta['method'], meta['target'], meta['framing'], len(meta['body']), orx[-120:]))
                        break
                    r = got[i]
                    exp_target = (b'/' + meta['path']) if meta['path'].startswith(b'?') else (meta['path'] or b'/')
                    if r['method'] != meta['method']:
                        w.fail('wrong_method', pos, '%r != %r' % (r['method'], meta['method']))
                        break
                    if r['target'] != exp_target:
                        w.fail('wrong_target', pos, 'origin got target %r, expected origin-form %r of %r' % (r['target'], exp_target, meta['target']))
                        break
                    if r['version'] != meta['version']:
                        w.fail('wrong_version', pos, '%r != %r' % (r['version'], meta['version']))
                        break
                    drop = {b'proxy-authorization', b'proxy-connection'} | set(disabled)
                    exp_h = sorted((n, v.strip()) for n, v in meta['headers']
                                   if n.lower() not in drop and n.lower() not in FRAMING)
                    got_h = [(n, v.strip()) for n, v in r['headers'] if n.lower() not in FRAMING]
                    via = [x for x in got_h if x[0].lower() == b'via']
                    rest = sorted(x for x in got_h if x[0].lower() != b'via')
                    if rest != exp_h:
                        missing = [x for x in exp_h if x not in rest]
                        extra_h = [x for x in rest if x not in exp_h]
                        kind = 'leaked' if any(x[0].lower() in drop for x in extra_h) else 'changed'
                        w.fail('headers_' + kind, pos, 'request %d: missing %r, unexpected %r' % (i, missing[:4], extra_h[:4]))
                        break
                    if len(via) != 1 or b'proxy.py' not in via[0][1]:
                        w.fail('via_missing', pos, 'request %d: Via fields at origin: %r' % (i, via))
                        break
                    cl = [v.strip() for n, v in r['headers'] if n.lower() == b'content-length']
                    if meta['framing'] == 'length' and (not cl or any(not c.isdigit() or int(c) != len(meta['body']) for c in cl)):
                        # a body delimited by Content-Length stays delimited by it, zero included (the header is one of 'the
                        # same header fields'; a POST that loses 'Content-Length: 0' is a different request to many servers)
                        w.fail('framing_changed', pos, 'request %d: client sent Content-Length %d, origin received Content-Length '
                               'fields %r' % (i, len(meta['body']), cl))
                        break
                    if r['body'] != meta['body']:
                        w.fail('wrong_body', '%s:%s' % (pos, meta['framing']),
                               'request %d: decoded body differs (%d vs %d bytes)' % (i, len(r['body']), len(meta['body'])))
                        break
                if not w.failures and len(got) > len(reqs):
                    w.fail('extra_request', 'c02', 'origin received %d requests, client sent %d' % (len(got), len(reqs)))
                if not w.failures and p['trailing']:
                    w.fail('trailing_garbage', 'c02', 'bytes after the last request at the origin: %r' % p['trailing'][:60])
        res.nontrivial = segmented or bool(w.stats.get('short_write', 0))
        res.features = g.features
        res.scenario = {'requests': [r.decode('latin-1')[:600] for r, _ in reqs], 'caps': caps, 'opts': {k: repr(v) for k, v in opts.items()},
                        'auth': auth, 'disabled': [d.decode() for d in disabled]}
        return scen.end_run(w, h, res)
