"""Property checks.  Each module cXX.py exposes

    ID, TITLE, RULE, COMPONENTS, ASSUMPTIONS
    def run_one(tape, cfg, forbid=frozenset()) -> Result

`cfg` is the tier configuration dict (sizes, caps).  `forbid` is a set of
scenario features the generator must neutralise (used by the known-finding
but-for test); the tape is consumed identically whether or not a feature is
forbidden.
"""
import importlib
from typing import Any, Dict, FrozenSet, List, Optional, Set, Tuple

ALL = ['C01', 'C02', 'C03', 'C04', 'C05', 'C06', 'C07', 'C08', 'C09', 'C10',
       'C11', 'C12', 'C13', 'C14', 'C17', 'C18', 'C19', 'C20']


def load(pid: str) -> Any:
    return importlib.import_module('sim.props.%s' % pid.lower())


class Result:
    __slots__ = ('failures', 'digest', 'nontrivial', 'stats', 'vtime', 'events',
                 'features', 'scenario', 'log', 'states', 'steps', '_choices')

    def __init__(self) -> None:
        self.failures: List[Tuple[str, str, str]] = []
        self.digest = ''
        self.nontrivial = False
        self.stats: Dict[str, int] = {}
        self.vtime = 0.0
        self.events = 0
        self.steps = 0
        self.features: Set[str] = set()
        self.scenario: Any = None
        self.log: List[str] = []
        self.states: Set[int] = set()

    def first(self) -> Optional[Tuple[str, str, str]]:
        return self.failures[0] if self.failures else None


class Gen:
    """Scenario generator helper: swarm coins with neutralisable features."""

    def __init__(self, tape: Any, forbid: FrozenSet[str] = frozenset()) -> None:
        self.tape = tape
        self.forbid = forbid
        self.features: Set[str] = set()

    def feature(self, name: str, p: float) -> bool:
        v = self.tape.coin(p, 'feat:' + name)
        if v and name in self.forbid:
            return False
        if v:
            self.features.add(name)
        return v

    def note(self, name: str) -> bool:
        """Record a derived feature; returns False if it is forbidden (caller
        must then neutralise it)."""
        if name in self.forbid:
            return False
        self.features.add(name)
        return True


def finish(res: Result, w: Any) -> Result:
    res.failures = list(w.failures)
    res.digest = w.hexdigest()
    res.stats = dict(w.stats)
    res.vtime = w.now
    res.events = w.seq
    res.steps = w.steps
    res.log = list(w.log)
    return res
