"""C19  Proxy listens where configured, reports its ports truthfully, shuts down cleanly."""
import os
from typing import Any, Dict, FrozenSet, List, Optional, Set, Tuple

from . import Gen, Result

ID = 'C19'
TITLE = 'Proxy listens where configured, reports its ports truthfully, shuts down cleanly'
RULE = ('one run = the real Proxy(args).setup() / shutdown() on the simulated kernel (listeners bound in the simulated '
        'network namespace, acceptor and worker "processes" as simulated processes with their own descriptor tables, '
        'descriptor passing over simulated pipes) for a drawn combination of --hostname / --hostnames (IPv4, IPv6), '
        '--port fixed or 0, --ports with 0-3 entries fixed or 0 (ephemeral only with a single address), '
        '--unix-socket-path, --port-file, --pid-file, execution mode (threaded, local, remote) and 1-2 acceptors / '
        'workers; ephemeral ports are assigned from the tape; PYTHONHASHSEED (it orders the hostname set) varies per '
        'worker process and is part of the replay file; after setup a client connects to every endpoint and must be '
        'served; non-trivial = --ports non-empty, or several addresses, or a unix socket, or an ephemeral port; '
        'distinct = distinct event-log digests')
PROBES = ['ports_flag', 'ephemeral_primary', 'ephemeral_additional', 'multi_address', 'ipv6', 'unix_socket', 'port_file',
          'pid_file', 'threaded', 'local', 'remote', 'endpoints_served', 'clean_shutdown']
COMPONENTS = {
    'real': ['proxy/proxy.py (Proxy.setup/shutdown, port / pid files)', 'proxy/core/listener/*.py',
             'proxy/core/acceptor/pool.py', 'proxy/core/acceptor/acceptor.py', 'proxy/core/work/pool.py',
             'proxy/core/work/fd/*.py', 'proxy/core/work/delegate.py', 'proxy/core/work/threaded.py',
             'proxy/common/flag.py', 'proxy/http/handler.py', 'proxy/http/server/web.py'],
    'stub': ['kernel: bind/listen/accept, ephemeral port assignment, descriptor tables per process, pipes and handle passing',
             'processes and threads (baton-passing scheduler; processes share one heap)', 'client peers',
             'POSIX signals (not modelled)'],
}
ASSUMPTIONS = ['the primary port is the one bound for --port; with --unix-socket-path no primary TCP port exists',
               'a run asks for an OS-assigned primary port only when every other port is fixed, so that the primary one is identifiable from outside (several OS-assigned additional ports next to a fixed primary are exercised)',
               'child processes = the multiprocessing.Process objects started by setup(); daemon threads inside them are '
               'covered through their process']
TIERS = {
    'quick': {'runs': 1500, 'budget_s': 45},
    'thorough': {'runs': 150000, 'budget_s': 900},
}
HASHSEEDS = 4
STATE_MEASURE = 'distinct (mode, #addresses, primary kind, additional ports kinds, unix, files) tuples'
FIXED = [8899, 9000, 9001, 18080, 443, 9002, 65535]


def run_one(tape: Any, cfg: Dict[str, Any], forbid: FrozenSet[str] = frozenset()) -> Result:
    from ..actors import Peer
    from ..harness import scratch_dir
    from ..httpgen import h11_parse_responses
    from ..kernel import World
    from .. import scen
    from . import finish

    g = Gen(tape, forbid)
    res = Result()
    sd = scratch_dir()
    with World(tape) as w:
        scen.sched_swarm(w, tape)
        mode = ['local', 'remote', 'threaded'][tape.draw(3, 'mode')]
        w.probe(mode)
        nacc = 1 + tape.draw(2, 'nacc')
        nwork = 1 + tape.draw(2, 'nwork')
        use_unix = g.feature('unix_socket', 0.2)
        multi = g.feature('multi_address', 0.35)
        hostname = ['127.0.0.1', '::1', '0.0.0.0', '10.9.0.1'][tape.weighted([4, 2, 1, 1], 'hostname')]
        extra_hosts: List[str] = []
        if multi:
            if hostname == '0.0.0.0':
                hostname = '127.0.0.1'
            pool = [x for x in ['127.0.0.2', '::1', '10.9.0.2'] if x != hostname]
            extra_hosts = pool[:1 + tape.draw(2, 'nextra')]
            w.probe('multi_address')
        hosts = [hostname] + extra_hosts
        if any(':' in x for x in hosts):
            w.probe('ipv6')
        single = len(hosts) == 1
        nports = tape.weighted([3, 3, 2, 1], 'nports')
        if nports and not g.note('ports_flag'):
            nports = 0
        primary_eph = single and tape.coin(0.4, 'primary-eph') and not use_unix
        avail = list(FIXED)
        port = 0 if primary_eph else avail.pop(tape.draw(len(avail), 'port'))
        ports: List[int] = []
        eph_extra = False
        for i in range(nports):
            if single and not primary_eph and tape.coin(0.3, 'extra-eph'):      # (several OS-assigned extras are distinct endpoints)
                ports.append(0)
                eph_extra = True
            else:
                ports.append(avail.pop(tape.draw(len(avail), 'xport')))
        if nports:
            w.probe('ports_flag')
        if primary_eph:
            w.probe('ephemeral_primary')
        if eph_extra:
            w.probe('ephemeral_additional')
        run_id = '%d' % tape.draw(1 << 30, 'runid')
        port_file = os.path.join(sd, 'ports-%s.txt' % run_id) if tape.coin(0.6, 'portfile') else None
        pid_file = os.path.join(sd, 'pid-%s.txt' % run_id) if tape.coin(0.5, 'pidfile') else None
        unix_path = os.path.join(sd, 'u-%s.sock' % run_id) if use_unix else None
        args = ['--num-acceptors', str(nacc), '--num-workers', str(nwork), '--hostname', hostname, '--port', str(port)]
        if extra_hosts:
            args += ['--hostnames'] + extra_hosts
        if ports:
            args += ['--ports'] + [str(p) for p in ports]
        if unix_path:
            args += ['--unix-socket-path', unix_path]
            w.probe('unix_socket')
        if port_file:
            args += ['--port-file', port_file]
            w.probe('port_file')
        if pid_file:
            args += ['--pid-file', pid_file]
            w.probe('pid_file')
        args += {'local': ['--threadless', '--local-executor', '1'], 'remote': ['--threadless', '--local-executor', '0'],
                 'threaded': ['--threaded']}[mode]
        from proxy.proxy import Proxy
        nthreads0 = len(w.threads)
        p = Proxy(args, enable_web_server=True)
        try:
            p.setup()
        except Exception as e:       # noqa
            from ..kernel import _short_tb
            w.fail('setup_raised', _short_tb(e), 'Proxy.setup() raised %r for %r' % (e, [a.replace(sd, '<scratch>') for a in args]))
            res.scenario = {'args': [a.replace(sd, '<scratch>') for a in args]}
            res.features = g.features
            w.abort_threads()
            for f_ in (port_file, pid_file, unix_path):
                if f_ and os.path.exists(f_):
                    os.remove(f_)
            return finish(res, w)
        # ---- what is bound, by the kernel's account -------------------------------------------------------------
        bound_tcp = sorted(k for k in w.bound if k[0] != 'unix')
        bound_unix = sorted(k[1] for k in w.bound if k[0] == 'unix')
        want_fixed = {(h, q) for h in hosts for q in ports + ([] if unix_path else [port]) if q != 0}
        n_eph = (ports.count(0) + (1 if (port == 0 and not unix_path) else 0)) * len(hosts)
        sig = '%s:%s%s' % (mode, 'unix' if unix_path else 'tcp', ':ports' if ports else '')
        bset = set(bound_tcp)
        if not want_fixed <= bset or len(bset) != len(want_fixed) + n_eph or (unix_path and bound_unix != [unix_path]) \
                or (not unix_path and bound_unix):
            w.fail('wrong_endpoints', sig, 'configured %r + %d OS-assigned, unix %r; bound %r unix %r'
                   % (sorted(want_fixed), n_eph, unix_path, bound_tcp, bound_unix))
        eph_ports = sorted({k[1] for k in bset - want_fixed})
        primary: Optional[int] = None
        if not unix_path:
            primary = port if port != 0 else (eph_ports[0] if eph_ports else None)
        all_ports = sorted({k[1] for k in bset})
        # ---- reported ports ----------------------------------------------------------------------------------------
        if not w.failures:
            rep = ([p.flags.port] if not unix_path else []) + list(p.flags.ports)
            if not unix_path and p.flags.port != primary:
                w.fail('wrong_primary_port', sig, 'flags.port is %r, the port bound for --port %d is %r (bound %r, flags.ports %r)'
                       % (p.flags.port, port, primary, all_ports, p.flags.ports))
            elif sorted(rep) != all_ports:
                w.fail('wrong_reported_ports', sig, 'flags.port + flags.ports = %r, bound TCP ports are %r' % (rep, all_ports))
            elif port_file:
                try:
                    with open(port_file, 'rb') as f:
                        lines = [int(x) for x in f.read().split()]
                except Exception as e:      # noqa
                    lines = None
                    w.fail('port_file_unreadable', sig, repr(e))
                if lines is not None:
                    if sorted(lines) != all_ports or (primary is not None and lines[:1] != [primary]):
                        w.fail('wrong_port_file', sig, 'port file lists %r; bound TCP ports %r, primary %r' % (lines, all_ports, primary))
            if not w.failures and pid_file and not os.path.exists(pid_file):
                w.fail('no_pid_file', sig, 'pid file was not written')
        # ---- every endpoint accepts and serves -------------------------------------------------------------------------
        clients: List[Tuple[Any, Any]] = []
        if not w.failures:
            req = b'GET /ping HTTP/1.1\r\nHost: x\r\n\r\n'
            eps: List[Tuple[str, Optional[int]]] = [(h, q) for (h, q) in bound_tcp]
            if unix_path:
                eps.append((unix_path, None))
            for i, (h, q) in enumerate(eps):
                c = Peer(w, 'c%d' % i, [('sleep', 0.01 * i), ('connect',), ('send', req, 'burst'),
                                        ('wait_rx', lambda pe: b'\r\n\r\n' in pe.rx), ('sleep', 0.05), ('close',)])
                tgt_h = '127.0.0.1' if h == '0.0.0.0' else h
                c.connect_fn = (lambda h=tgt_h, q=q, i=i: (lambda peer: w.actor_connect(h, q, label='c%d' % i)))()
                clients.append((c, (h, q)))
            w.settle(1.5, 60.0)
            for c, ep in clients:
                if c.refused:
                    w.fail('endpoint_refuses', sig, 'configured endpoint %r refused the connection' % (ep,))
                    break
                pr = h11_parse_responses(bytes(c.rx), True, [b'GET'])
                if pr['error'] or not pr['responses'] or not pr['responses'][0]['complete']:
                    w.fail('endpoint_not_served', sig, 'endpoint %r accepted but did not answer: %r' % (ep, bytes(c.rx)[:80]))
                    break
            else:
                w.probe('endpoints_served')
        # ---- shutdown ------------------------------------------------------------------------------------------------------
        try:
            p.shutdown()
        except Exception as e:      # noqa
            from ..kernel import _short_tb
            w.fail('shutdown_raised', _short_tb(e), 'Proxy.shutdown() raised %r' % (e,))
        if not w.failures and not w.hung:
            w.run_for(0.5)
            still = [k for k in w.bound]
            procs = [t.name for t in w.threads[nthreads0:] if not t.finished and getattr(t, 'is_process', False)]
            threads = [t.name for t in w.threads[nthreads0:] if not t.finished and not t.daemon]
            if still:
                w.fail('still_listening', sig, 'after shutdown these endpoints are still bound: %r' % (still,))
            elif procs:
                w.fail('child_process_remains', sig, 'processes still running after shutdown: %r' % procs)
            elif threads:
                w.fail('thread_remains', sig, 'non-daemon threads still running after shutdown: %r' % threads)
            elif port_file and os.path.exists(port_file):
                w.fail('port_file_left', sig, 'port file still exists after shutdown')
            elif pid_file and os.path.exists(pid_file):
                w.fail('pid_file_left', sig, 'pid file still exists after shutdown')
            elif unix_path and os.path.exists(unix_path):
                w.fail('unix_socket_left', sig, 'unix socket path still exists after shutdown')
            else:
                for (c, (h, q)) in clients[:2]:
                    if w.actor_connect('127.0.0.1' if h == '0.0.0.0' else h, q, label='late') is not None:
                        w.fail('still_accepting', sig, 'endpoint %r accepts after shutdown' % ((h, q),))
                        break
                else:
                    w.probe('clean_shutdown')
        for f_ in (port_file, pid_file, unix_path):
            if f_ and os.path.exists(f_):
                os.remove(f_)
        res.nontrivial = bool(ports) or len(hosts) > 1 or bool(unix_path) or primary_eph
        res.features = g.features
        res.states = {hash((mode, len(hosts), primary_eph, tuple(q == 0 for q in ports), bool(unix_path), bool(port_file),
                            bool(pid_file))) & 0xffffffff}
        res.scenario = {'args': [a.replace(sd, '<scratch>') for a in args], 'bound': [list(k) for k in bound_tcp],
                        'hashseed': os.environ.get('PYTHONHASHSEED')}
        if w.hung:
            scen.hang_failure(w)
        return finish(res, w)
