"""C08  With proxy authentication on, unauthenticated requests reach nothing."""
import base64
from typing import Any, Dict, FrozenSet, List, Optional, Tuple

from . import Gen, Result

ID = 'C08'
TITLE = 'With proxy authentication on, unauthenticated requests reach nothing'
RULE = ('one run = one client connection to a real executor configured with drawn --basic-auth credentials and 0-2 '
        'recording user plugins; the first request (any method incl. CONNECT, drawn segmentation) carries a drawn '
        'Proxy-Authorization situation (absent, other scheme, wrong / truncated / extended / re-encoded / raw token, '
        'whitespace and parameter variants, duplicated lines, every casing of name and scheme, or the canonical '
        'credentials); with valid credentials 0-2 follow-up requests are sent, with or without credentials; an '
        'independent classifier decides must-reject / must-serve / either; observed through the client transcript '
        '(h11), the simulated kernel\'s resolve/connect log, the origin transcript and the plugins\' call log; '
        'non-trivial = the header is present (any variant) or the request is segmented; distinct = distinct digests')
PROBES = ['absent', 'canonical', 'other_scheme', 'wrong_token', 'reencoded', 'whitespace', 'params', 'duplicate',
          'raw_credentials', 'connect_method', 'segmented', 'followup', 'user_plugins', 'rejected_407', 'served',
          'either_rejected', 'either_served', 'coalesced_followups', 'upgrade_followup', 'auth_listed_explicitly', 'disabled_headers']
COMPONENTS = {
    'real': ['proxy/http/proxy/auth.py', 'proxy/http/proxy/server.py', 'proxy/http/handler.py', 'proxy/common/flag.py '
             '(plugin ordering)', 'proxy/http/parser/*', 'proxy/http/exception/proxy_auth_failed.py',
             'proxy/core/work/threadless.py', 'proxy/core/connection/*.py'],
    'stub': ['kernel (resolve/connect log is the observation point)', 'peers', 'generated recording plugins'],
}
ASSUMPTIONS = ['"exactly the configured credentials" is decided on the header as sent: one line whose value is '
               '<scheme token "basic" in any casing> SP <base64(user:pass) exactly>; syntactic variants (extra '
               'whitespace, parameters after the token, duplicated lines, alternative base64 spellings of the same '
               'credentials) may be accepted or rejected, but the outcome must be consistent with one of the two classes',
               'request-handling hooks = resolve_dns, before_upstream_connection, handle_client_request, '
               'handle_client_data, handle_upstream_chunk, do_intercept; lifecycle callbacks (access log, close) are C09']
TIERS = {
    'quick': {'runs': 8000, 'budget_s': 40, 'max_body': 200},
    'thorough': {'runs': 800000, 'budget_s': 900, 'max_body': 5000},
}
METHODS = [b'GET', b'POST', b'PUT', b'DELETE', b'PATCH', b'OPTIONS', b'PROPFIND', b'M-SEARCH']   # HEAD: see C06 (error page body)
CREDS = [(b'user', b'pass'), (b'u', b'p'), (b'admin', b'a:b:c'), (b'User', b'Pass'), (b'x' * 20, b'y' * 31),
         (b'me', b'pa ss'), (b'a', b'')]


def run_one(tape: Any, cfg: Dict[str, Any], forbid: FrozenSet[str] = frozenset()) -> Result:
    from ..actors import Origin, Peer
    from ..harness import L1, make_flags
    from ..httpgen import casing, gen_cuts, gen_request, h11_parse_requests, h11_parse_responses
    from ..kernel import World
    from ..plugins import REQUEST_HOOKS, make_proxy_plugin
    from .. import scen

    g = Gen(tape, forbid)
    res = Result()
    with World(tape) as w:
        scen.sched_swarm(w, tape)
        w.dns['up.example'] = ['10.0.0.1']
        user, pw = CREDS[tape.draw(len(CREDS), 'creds')]
        good = base64.b64encode(user + b':' + pw)
        nplug = tape.weighted([2, 2, 1], 'nplug')
        plog: List[Any] = []
        plugins: List[Any] = [make_proxy_plugin(i + 1, {}, plog) for i in range(nplug)]
        if nplug:
            w.probe('user_plugins')
            if g.feature('auth_listed_explicitly', 0.2):
                # the operator also names the auth plugin among the plugins, after some of their own: it still comes first
                plugins.insert(1 + tape.draw(nplug, 'auth-pos'), b'proxy.http.proxy.auth.AuthPlugin')
                w.probe('auth_listed_explicitly')
        # ---- the header situation -----------------------------------------------------------------
        kind = ['absent', 'canonical', 'other_scheme', 'wrong_token', 'reencoded', 'whitespace', 'params',
                'duplicate', 'raw_credentials'][tape.weighted([3, 4, 2, 4, 2, 2, 2, 2, 1], 'kind')]
        w.probe(kind)
        hname = [b'Proxy-Authorization', b'proxy-authorization', b'PROXY-AUTHORIZATION', b'Proxy-authorization',
                 b'pRoXy-AuThOrIzAtIoN'][tape.draw(5, 'name-case')]
        scheme = [b'Basic', b'basic', b'BASIC', b'bAsIc'][tape.draw(4, 'scheme-case')]
        lines: List[Tuple[bytes, bytes]] = []
        klass = 'reject'
        if kind == 'absent':
            pass
        elif kind == 'canonical':
            lines = [(hname, scheme + b' ' + good)]
            klass = 'serve'
        elif kind == 'other_scheme':
            sch = [b'Bearer', b'Digest', b'Basi', b'Basicx', b'Negotiate', b'Basic,'][tape.draw(6, 'sch')]
            lines = [(hname, sch + b' ' + good)]
        elif kind == 'wrong_token':
            v = tape.draw(8, 'wrong')
            if v == 0:
                tok = base64.b64encode(user + b':' + pw + b'x')
            elif v == 1:
                tok = base64.b64encode(user + b'x:' + pw)
            elif v == 2:
                tok = good[:-1]
            elif v == 3:
                tok = good + b'A'
            elif v == 4:
                tok = good.swapcase()
                if tok == good:
                    tok = good + b'B'
            elif v == 5:
                tok = b''
            elif v == 6:
                tok = base64.b64encode(pw + b':' + user) if pw + b':' + user != user + b':' + pw else b'Zm9v'
            else:
                tok = good[1:]
            if tok == good:
                tok = good + b'Q'
            lines = [(hname, scheme + (b' ' + tok if tok or tape.coin(0.5, 'sp') else b''))]
        elif kind == 'reencoded':
            v = tape.draw(3, 'reenc')
            if v == 0 and good.endswith(b'='):
                tok = good.rstrip(b'=')
            elif v == 1:
                tok = good + b'='
            else:
                tok = base64.urlsafe_b64encode(user + b':' + pw)
                if tok == good:
                    tok = good + b'=='
            lines = [(hname, scheme + b' ' + tok)]
            klass = 'either'
        elif kind == 'whitespace':
            v = tape.draw(4, 'ws')
            val = [scheme + b'  ' + good, scheme + b'\t' + good, scheme + b' ' + good + b' ', scheme + b' \t ' + good][v]
            lines = [(hname, val)]
            klass = 'either'
        elif kind == 'params':
            v = tape.draw(3, 'params')
            val = [scheme + b' ' + good + b' realm="x"', scheme + b' ' + good + b', ' + scheme + b' ' + good,
                   scheme + b' ' + good + b';q=1'][v]
            lines = [(hname, val)]
            klass = 'either' if v != 2 else 'reject'     # v == 2: the token itself is different
        elif kind == 'duplicate':
            bad = scheme + b' ' + base64.b64encode(b'nobody:nothing')
            v = tape.draw(3, 'dup')
            other = casing(tape, b'Proxy-Authorization')
            lines = [[(hname, scheme + b' ' + good), (other, bad)], [(hname, bad), (other, scheme + b' ' + good)],
                     [(hname, scheme + b' ' + good), (other, scheme + b' ' + good)]][v]
            klass = 'either'
        else:
            lines = [(hname, scheme + b' ' + user + b':' + pw)]
            if user + b':' + pw == good:
                klass = 'either'
        klass = classify(lines, good, user + b':' + pw)
        form = 'connect' if g.feature('connect_method', 0.25) else 'absolute'
        if form == 'connect':
            w.probe('connect_method')
        port = 443 if form == 'connect' else [None, 8080][tape.draw(2, 'port')]
        reqs: List[Tuple[bytes, Dict[str, Any]]] = []
        raw, meta = gen_request(tape, g, form=form, host=b'up.example', port=port, max_body=cfg['max_body'],
                                extra=[l for l in lines[:1]], allow_http10=False, methods=METHODS)
        if len(lines) > 1:
            # gen_request keeps names unique; splice the duplicate line in front of the blank line
            he = raw.index(b'\r\n\r\n')
            raw = raw[:he + 2] + lines[1][0] + b': ' + lines[1][1] + b'\r\n' + raw[he + 2:]
            meta['marks'] = [m if m <= he + 2 else m + len(lines[1][0]) + len(lines[1][1]) + 4 for m in meta['marks']]
        reqs.append((raw, meta))
        nfollow = 0
        if klass != 'reject' and form != 'connect':
            nfollow = tape.weighted([3, 2, 1], 'nfollow')
            for i in range(nfollow):
                fk = tape.draw(3, 'follow-kind')
                extra = [] if fk == 0 else [(casing(tape, b'Proxy-Authorization'),
                                            [b'Basic ', b'basic '][tape.draw(2, 'fsc')] +
                                            (good if fk == 1 else base64.b64encode(b'other:creds')))]
                ms = METHODS
                if extra and g.feature('upgrade_followup', 0.2) and (i == nfollow - 1 or g.note('request_after_declined_upgrade')):
                    # a protocol-switch request (declined by the origin) is still a request: its credentials stay here
                    extra = [(b'Connection', b'Upgrade'), (b'Upgrade', b'websocket')] + extra
                    ms = [b'GET']
                    w.probe('upgrade_followup')
                r2, m2 = gen_request(tape, g, form='absolute', host=b'up.example', port=port,
                                     max_body=cfg['max_body'], extra=extra, allow_http10=False, methods=ms)
                reqs.append((r2, m2))
            if nfollow:
                w.probe('followup')
        # follow-ups written together with the first request (one segment): whether they are answered at all is C04's
        # question (known finding there); here only that nothing of them reaches the origin with the credentials on
        coalesced = nfollow > 0 and g.feature('coalesced_followups', 0.25)
        total = sum(len(r) for r, _ in reqs)
        floor = scen.unit_floor(total, 400)
        opts = scen.proxy_opts(tape, floor)
        if coalesced:
            # everything must reach the proxy in one read: a coalesced stream cut by a small receive buffer is the known
            # pipelining defect of C04 (the tail is parsed from its middle and forwarded as a mangled request), which would
            # hide what this scenario is for
            # (runs that keep a small buffer carry the feature coalesced_split_read: known finding, see known_findings.json)
            if 'client_recvbuf_size' in opts and not g.note('coalesced_split_read'):
                opts.pop('client_recvbuf_size', None)
        if tape.coin(0.3, 'disable-headers'):
            # the operator also disables some header: nothing to do with the credentials, which still never travel
            opts['disable_headers'] = [[b'x-internal-trace'], [b'cookie', b'x-b']][tape.draw(2, 'which-disabled')]
            w.probe('disabled_headers')
        flags = make_flags(threadless=True, local_executor=1, timeout=3600, plugins=plugins,
                           basic_auth=(user + b':' + pw).decode(), **opts)
        h = L1(w, flags)
        RESP = b'HTTP/1.1 200 OK\r\nContent-Length: 2\r\nX-Origin: up\r\n\r\nok'
        RESP_HEAD = b'HTTP/1.1 200 OK\r\nContent-Length: 2\r\nX-Origin: up\r\n\r\n'

        def responder(peer: Any, info: Dict[str, Any]) -> List[Any]:
            m = info['start_line'].split(b' ', 1)[0]
            return [('send', RESP_HEAD if m == b'HEAD' else RESP, 'burst')]
        if form == 'connect':
            org = Origin(w, '10.0.0.1', 443, lambda i: [('wait_rx', lambda p: len(p.rx) >= 4), ('send', b'pong', 'burst'),
                                                        ('wait_eof',), ('close',)], name='up')
        else:
            org = Origin(w, '10.0.0.1', port or 80, lambda i: [('serve', responder, 10), ('wait_eof',), ('close',)],
                         name='up')
        script: List[Any] = [('connect',)]
        segmented = False
        nresp = 0
        if coalesced:
            script.append(('send', b''.join(r for r, _ in reqs), 'burst'))
            script.append(('wait_rx', lambda p: _count(bytes(p.rx)) >= 1))
        for i, (raw, meta) in enumerate(reqs if not coalesced else []):
            cuts = gen_cuts(tape, len(raw), meta['marks'])
            if cuts:
                segmented = True
                script.append(('send', raw, 'cuts', cuts))
            else:
                script.append(('send', raw, 'burst'))
            if form == 'connect':
                script += [('wait_rx', lambda p: b'\r\n\r\n' in p.rx), ('send', b'ping', 'burst'),
                           ('wait_rx', lambda p: p.rx.endswith(b'pong'))]
            else:
                nresp += 1
                script.append(('wait_rx', (lambda n: (lambda p: _count(bytes(p.rx)) >= n))(nresp)))
        script += [('sleep', 0.5), ('close',)]
        if segmented:
            w.probe('segmented')
        if coalesced:
            w.probe('coalesced_followups')
        cl = Peer(w, 'client', script, read_mode='chunky')
        cl.connect_fn = h.connector(cap_to_proxy=max(65536, 2 * total))
        w.settle(1.5, 300.0)
        scen.executor_check(w, h)

        # ---- oracle ----------------------------------------------------------------------------
        if not w.failures and not w.hung:
            rx = bytes(cl.rx)
            methods = [m['method'] for _, m in reqs]
            p = h11_parse_responses(rx, cl.saw_eof or cl.saw_reset, methods)
            resp = [r for r in p['responses'] if not r.get('interim')]
            got_407 = bool(resp) and resp[0]['status'] == 407
            outcome = 'reject' if got_407 else 'serve'
            if klass == 'either':
                w.probe('either_rejected' if got_407 else 'either_served')
            expect = klass if klass != 'either' else outcome
            orx = b''.join(bytes(c.rx) for c in org.conns)
            hooks = [e for e in plog if e[1] in REQUEST_HOOKS]
            sig = '%s:%s' % (kind, form)
            if expect == 'reject':
                if p['error'] or len(resp) != 1 or not got_407 or not resp[0]['complete']:
                    if klass == 'reject' and resp and resp[0]['status'] // 100 == 2 or (org.conns and klass == 'reject'):
                        w.fail('served_without_credentials', sig,
                               'request with %s credentials was served: client got %r, upstream connections %d; header lines %r; '
                               'configured %r' % (kind, rx[:80], len(org.conns), lines, good))
                    else:
                        w.fail('no_407', sig, 'expected exactly one complete 407, client got %r (h11: %s)' % (rx[:120], p['error']))
                elif not (cl.saw_eof or cl.saw_reset):
                    w.fail('not_closed_after_407', sig, 'connection left open after the 407')
                elif w.connect_log or w.resolve_log:
                    w.fail('upstream_contacted', sig, 'rejected request caused name resolution / connect: %r %r'
                           % (w.resolve_log[:3], w.connect_log[:3]))
                elif orx or org.conns:
                    w.fail('bytes_forwarded', sig, 'origin received %r' % orx[:80])
                elif hooks:
                    w.fail('later_plugin_ran', sig, 'request-handling hooks of later plugins ran: %r' % hooks[:4])
                else:
                    w.probe('rejected_407')
            else:
                # must be served completely and the credentials must not travel
                if form == 'connect':
                    i = rx.find(b'\r\n\r\n')
                    ack = h11_parse_responses(rx[:i + 4], False, [b'CONNECT']) if i >= 0 else None
                    if ack is None or ack['error'] or not ack['responses'] or ack['responses'][0]['status'] != 200:
                        w.fail('not_served', sig, 'valid credentials (%s) but no tunnel acknowledgement: %r' % (kind, rx[:100]))
                    elif not rx.endswith(b'pong') or orx != b'ping':
                        w.fail('not_served', sig, 'tunnel did not relay: client %r origin %r' % (rx[-20:], orx[:40]))
                else:
                    ok = [r for r in resp if r['status'] == 200 and r['complete']]
                    if coalesced:
                        # (whether and how many of them are answered: C04 / C06, known findings there)
                        if p['error'] or len(ok) != len(resp) or len(resp) > len(reqs):
                            w.fail('not_served', sig, 'valid credentials (%s), coalesced requests: client got %r (h11: %s)'
                                   % (kind, rx[:120], p['error']))
                    elif p['error'] or len(ok) != len(reqs) or len(resp) != len(reqs):
                        w.fail('not_served', sig, 'valid credentials (%s) but %d of %d requests answered 200: %r (h11: %s)'
                               % (kind, len(ok), len(reqs), rx[:120], p['error']))
                if not w.failures:
                    leak = None
                    if form == 'connect':
                        if good in orx or b'uthorization' in orx:
                            leak = orx[:100]
                    elif coalesced:
                        if b'proxy-authorization' in orx.lower() or good in orx:
                            i = max(orx.lower().find(b'proxy-authorization'), 0)
                            leak = (1, b'raw origin bytes', orx[max(0, i - 40):i + 60])
                    else:
                        pr = h11_parse_requests(orx)
                        if pr['error'] or len(pr['requests']) != len(reqs):
                            w.fail('origin_bytes_malformed', sig, 'origin got %d requests for %d sent (h11: %s)'
                                   % (len(pr['requests']), len(reqs), pr['error']))
                        for i, r in enumerate(pr['requests']):
                            for n, v in r['headers']:
                                if n.lower() == b'proxy-authorization' or good in v:
                                    leak = (i, n, v)
                        if leak is None and (good in orx):
                            leak = 'token bytes in origin stream'
                    if leak is not None and not w.failures:
                        w.fail('credentials_forwarded', '%s:%s' % ('first' if (not isinstance(leak, tuple) or leak[0] == 0) else 'later', form),
                               'proxy credentials reached the origin: %r' % (leak,))
                if not w.failures:
                    # plugin order: user plugins run, and only after the auth plugin accepted
                    w.probe('served')
        res.nontrivial = bool(lines) or segmented
        res.features = g.features
        res.scenario = {'kind': kind, 'class': klass, 'lines': [(a.decode('latin-1'), b.decode('latin-1')) for a, b in lines],
                        'configured': good.decode(), 'form': form, 'nplug': nplug, 'nfollow': nfollow, 'coalesced': coalesced,
                        'requests': [r.decode('latin-1')[:400] for r, _ in reqs]}
        return scen.end_run(w, h, res)


def _lenient_decode(tok: bytes) -> List[bytes]:
    out = []
    for fn in (base64.b64decode, base64.urlsafe_b64decode):
        for pad in (b'', b'=', b'==', b'==='):
            try:
                out.append(fn(tok.rstrip(b'=') + pad))
            except Exception:
                pass
    return out


def classify(lines: List[Tuple[bytes, bytes]], good: bytes, creds: bytes) -> str:
    """Independent classifier of a Proxy-Authorization situation: 'reject' | 'serve' | 'either'."""
    WS = b' \t'
    if not lines:
        return 'reject'
    if len(lines) > 1:
        return 'either'
    v = lines[0][1]
    if v[:5].lower() == b'basic' and v[5:6] == b' ' and v[6:] == good:
        return 'serve'
    s = v.strip(WS)
    i = 0
    while i < len(s) and s[i:i + 1] not in (b' ', b'\t'):
        i += 1
    scheme, rest = s[:i], s[i:].strip(WS)
    if scheme.lower() != b'basic':
        return 'reject'
    if not rest:
        return 'reject'
    j = 0
    while j < len(rest) and rest[j:j + 1] not in (b' ', b'\t', b','):
        j += 1
    tok = rest[:j]
    if tok == good:
        return 'either'     # right token, non-canonical spacing / parameters
    if creds in _lenient_decode(tok):
        return 'either'     # another spelling of the same credentials
    return 'reject'


def _count(rx: bytes) -> int:
    from .c04 import count_responses
    return count_responses(rx)
