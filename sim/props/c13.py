"""C13  The static file server never serves anything outside its directory."""
import builtins
import errno
import gzip
import os
import posixpath
from typing import Any, Dict, FrozenSet, List, Optional, Tuple

from . import Gen, Result

ID = 'C13'
TITLE = 'The static file server never serves anything outside its directory'
RULE = ('one run = one request path built from an alphabet of existing and missing names, "/", ".", "..", '
        '%-sequences and repeated / trailing separators, against a real scratch tree that has files inside the '
        'static root and just outside it (sibling file, sibling directory sharing the root\'s name prefix, parent); '
        'the path is requested twice over the real executor, without and with a drawn query string, in drawn '
        'segmentations, with drawn compression threshold and optional injected disk errors (open/read raising '
        'EIO, EACCES, EMFILE); ground truth = posixpath.normpath on the raw path + the real tree; '
        'non-trivial = the path contains a dot-segment, a %-sequence, a doubled or trailing separator, or a disk '
        'fault fired; distinct = distinct event-log digests')
PROBES = ['escapes_root', 'inside_plain', 'inside_dotted', 'missing', 'directory', 'percent', 'query', 'compressed',
          'served_200', 'answered_404', 'disk_fault', 'prefix_sibling', 'trailing_slash_root', 'segmented']
COMPONENTS = {
    'real': ['proxy/http/server/web.py (_try_static_or_404)', 'proxy/http/server/plugin.py (serve_static_file)',
             'proxy/http/responses.py', 'proxy/http/handler.py', 'proxy/http/parser/*', 'proxy/core/work/threadless.py',
             'the file system (real files in a per-worker scratch directory)'],
    'stub': ['kernel', 'client peer', 'builtins.open wrapped only to inject errors'],
}
ASSUMPTIONS = ['paths are compared undecoded: the server does not percent-decode, so "%2e%2e" is an ordinary (missing) name',
               'a path inside the root that the operating system can open must be served (200 with the file\'s bytes) when it '
               'has no dot-segments; with dot-segments inside the root either the file or a 404 is accepted',
               'no symbolic links in the tree']
TIERS = {
    'quick': {'runs': 8000, 'budget_s': 40},
    'thorough': {'runs': 800000, 'budget_s': 900},
}
STATE_MEASURE = 'distinct (path class, fault kind, compression, query kind) tuples'
SECRET = b'OUTSIDE-SECRET-'
SEGS = ['a.txt', 'sub', 'deep', 'b.txt', 'c.bin', '..', '..', '.', '', 'root', 'root2', 'inner.txt', 'outside.txt', 'tree', 'key.txt',
        'nosuch', '%2e%2e', '%2E%2E', '..%2f', 'index.html', 'rootsecret.txt', '...', '..a', 'sp ace']
QUERIES = ['x=1', '/../outside.txt', 'a.txt', '', '?', 'p=/a.txt&q=..',
           # queries that, were they taken for path segments, would lead back into the root or out of it
           '/../root/a.txt', '/../root/', 'x/../../root/sub/b.txt', '/../../root/a.txt', 'next=/../../x', 'a/../../..']
_real_open = builtins.open
_fault: Dict[str, Any] = {}


class _FaultyFile:
    def __init__(self, f: Any, e: int) -> None:
        self.f = f
        self.e = e

    def __enter__(self) -> '_FaultyFile':
        return self

    def __exit__(self, *a: Any) -> None:
        self.f.close()

    def read(self, *a: Any) -> bytes:
        raise OSError(self.e, os.strerror(self.e))

    def close(self) -> None:
        self.f.close()


def _open(file: Any, *a: Any, **k: Any) -> Any:
    if _fault and isinstance(file, str) and file.startswith(_fault['prefix']):
        kind, e = _fault['kind'], _fault['errno']
        _fault['fired'] = _fault.get('fired', 0) + 1
        if kind == 'open':
            raise OSError(e, os.strerror(e), file)
        return _FaultyFile(_real_open(file, *a, **k), e)
    return _real_open(file, *a, **k)


def setup_worker(job: Dict[str, Any]) -> None:
    base = os.path.join(job['scratch'], 'c13')
    root = os.path.join(base, 'root')
    os.makedirs(os.path.join(root, 'sub', 'deep'), exist_ok=True)
    os.makedirs(os.path.join(base, 'root2'), exist_ok=True)
    os.makedirs(os.path.join(base, 'tree'), exist_ok=True)      # a sibling whose name is as long as the root's
    import random
    r = random.Random(13)
    files = {
        'root/index.html': b'<html>index</html>', 'root/a.txt': b'A-inside', 'root/sub/b.txt': b'B-inside' * 40,
        'root/sub/deep/c.bin': r.randbytes(3000), 'root/root': b'file-named-root',
        'outside.txt': SECRET + b'1', 'root2/inner.txt': SECRET + b'2', 'tree/key.txt': SECRET + b'5', 'rootsecret.txt': SECRET + b'3',
        'root/sp ace': b'space',
    }
    for rel, data in files.items():
        with _real_open(os.path.join(base, rel), 'wb') as f:
            f.write(data)
    with _real_open(os.path.join(os.path.dirname(base), 'parent.txt'), 'wb') as f:
        f.write(SECRET + b'4')
    builtins.open = _open      # type: ignore[assignment]


def run_one(tape: Any, cfg: Dict[str, Any], forbid: FrozenSet[str] = frozenset()) -> Result:
    from ..actors import Peer
    from ..harness import L1, make_flags, scratch_dir
    from ..httpgen import gen_cuts, h11_parse_responses
    from ..kernel import World
    from .. import scen

    g = Gen(tape, forbid)
    res = Result()
    _fault.clear()
    with World(tape) as w:
        scen.sched_swarm(w, tape)
        base = os.path.join(scratch_dir(), 'c13')
        root = os.path.join(base, 'root')
        trailing = g.feature('trailing_slash_root', 0.2)
        if trailing:
            w.probe('trailing_slash_root')
        # ---- the path ---------------------------------------------------------------------------------
        if tape.coin(0.5, 'directed'):
            # descend into existing directories, climb, then name something
            down = [[], ['sub'], ['sub', 'deep'], ['.'], ['sub', '.', 'deep'], ['sub', ''], ['nosuch']][tape.draw(7, 'down')]
            ups = ['..'] * tape.draw(5, 'ups')
            tail = [['a.txt'], ['outside.txt'], ['root2', 'inner.txt'], ['rootsecret.txt'], ['root', 'a.txt'],
                    ['sub', 'b.txt'], ['parent.txt'], ['root', 'sub', 'deep', 'c.bin'], ['..', 'parent.txt'],
                    ['c13', 'outside.txt'], [], ['tree', 'key.txt']][tape.draw(12, 'tail')]
            segs = down + ups + tail
        else:
            nseg = 1 + tape.small(6, 'nseg')
            segs = [SEGS[tape.draw(len(SEGS), 'seg')] for _ in range(nseg)]
        while segs and segs[0] == '':
            segs = segs[1:]      # a target starting with '//' is a network-path reference (proxy request), not a static path
        path = '/' + '/'.join(segs)
        if tape.coin(0.15, 'trail') and path != '/':
            path += '/'
        if ' ' in path:
            path = path.replace(' ', '%20') if tape.coin(0.5, 'enc-space') else path.replace('sp ace', 'a.txt')
        query = QUERIES[tape.draw(len(QUERIES), 'query')]
        w.probe('query')
        # ---- ground truth -------------------------------------------------------------------------------
        resolved = posixpath.normpath(root + path)
        inside = resolved == root or resolved.startswith(root + '/')
        os_path = root + ('/' if trailing else '') + path
        try:
            with _real_open(os_path, 'rb') as f:
                os_bytes: Optional[bytes] = f.read()
        except OSError:
            os_bytes = None
        dotted = any(s in ('.', '..') for s in path.split('/'))
        plain = not dotted and '//' not in path and not path.endswith('/')
        nontrivial = dotted or '%' in path or '//' in path or path.endswith('/')
        if not inside:
            klass = 'escapes_root'
            if resolved.startswith(root):
                w.probe('prefix_sibling')
        elif os_bytes is None:
            klass = 'directory' if os.path.isdir(os_path) else 'missing'
        elif plain:
            klass = 'inside_plain'
        else:
            klass = 'inside_dotted'
        w.probe(klass)
        if '%' in path:
            w.probe('percent')
        mcl = [1 << 30, 20, 0, 100][tape.draw(4, 'mcl')]
        fault_kind = None
        if g.feature('disk_fault', 0.2):
            fault_kind = ('open', 'read')[tape.draw(2, 'fk')]
            _fault.update({'prefix': root, 'kind': fault_kind,
                           'errno': [errno.EIO, errno.EACCES, errno.EMFILE][tape.draw(3, 'fe')]})
        flags = make_flags(threadless=True, local_executor=1, timeout=3600, enable_web_server=True,
                           enable_static_server=True, static_server_dir=root + ('/' if trailing else ''),
                           min_compression_length=mcl)
        h = L1(w, flags)
        clients = []
        segmented = False
        for k, tgt in enumerate((path, path + '?' + query)):
            raw = ('GET %s HTTP/1.1\r\nHost: static.example\r\n\r\n' % tgt).encode('latin-1')
            cuts = gen_cuts(tape, len(raw), [4, 4 + len(tgt), len(raw) - 4, len(raw) - 2])
            segmented = segmented or bool(cuts)
            script: List[Any] = [('sleep', 0.2 * k), ('connect',),
                                 ('send', raw, 'cuts', cuts) if cuts else ('send', raw, 'burst'), ('wait_eof',), ('close',)]
            c = Peer(w, 'c%d' % k, script, read_mode='chunky')
            c.connect_fn = h.connector()
            clients.append(c)
        # two control requests after the probed path: a file above the compression threshold, then one below it
        # (per-response state such as the header set must not leak from one response into the next)
        controls = [('/sub/b.txt', b'B-inside' * 40), ('/a.txt', b'A-inside')]
        for k, (cp, _) in enumerate(controls):
            raw = ('GET %s HTTP/1.1\r\nHost: static.example\r\n\r\n' % cp).encode()
            c = Peer(w, 'ctl%d' % k, [('sleep', 0.5 + 0.2 * k), ('connect',), ('send', raw, 'burst'), ('wait_eof',), ('close',)],
                     read_mode='eager')
            c.connect_fn = h.connector()
            clients.append(c)
        if segmented:
            w.probe('segmented')
        w.settle(1.5, 120.0)
        scen.executor_check(w, h)
        fired = _fault.get('fired', 0)
        _fault.clear()
        if fired:
            w.probe('disk_fault')
            w.stats['fault:disk_%s_error' % fault_kind] += fired
            nontrivial = True
        # ---- oracle -----------------------------------------------------------------------------------------
        outcomes = []
        if not w.failures and not w.hung:
            for k, c in enumerate(clients[2:]):
                if fired:
                    break
                rx = bytes(c.rx)
                p = h11_parse_responses(rx, True, [b'GET'])
                resp = [r for r in p['responses'] if not r.get('interim')]
                ok = not p['error'] and len(resp) == 1 and resp[0]['complete'] and resp[0]['status'] == 200
                body = resp[0]['body'] if ok else b''
                if ok and any(n.lower() == b'content-encoding' and v.strip().lower() == b'gzip' for n, v in resp[0]['headers']):
                    try:
                        body = gzip.decompress(body)
                    except Exception:      # noqa
                        ok = False
                if not ok or body != controls[k][1]:
                    w.fail('control_file_wrong', 'control:%s' % controls[k][0], 'after the probed request, GET %s returned %r (h11: %s): not the file, '
                           'or its advertised content-encoding does not match the body' % (controls[k][0], rx[:160], p['error']))
                    break
            for k, c in enumerate(clients[:2]):
                if w.failures:
                    break
                rx = bytes(c.rx)
                tgt = path if k == 0 else path + '?' + query
                closed = c.saw_eof or c.saw_reset
                if SECRET in rx:
                    w.fail('outside_content_served', klass, 'request %r returned bytes of a file outside the static root: %r'
                           % (tgt, rx[-40:]))
                    break
                p = h11_parse_responses(rx, closed, [b'GET'])
                resp = [r for r in p['responses'] if not r.get('interim')]
                if fault_kind is not None and not rx and closed:
                    outcomes.append(('closed', b''))
                    continue
                if p['error'] or len(resp) != 1 or not resp[0]['complete']:
                    w.fail('bad_response', klass, 'request %r: malformed / incomplete / missing response: %r (h11: %s, closed=%s)'
                           % (tgt, rx[:100], p['error'], closed))
                    break
                r = resp[0]
                body = r['body']
                enc = [v for n, v in r['headers'] if n.lower() == b'content-encoding']
                if enc and enc[0].strip().lower() == b'gzip':
                    try:
                        body = gzip.decompress(body)
                        w.probe('compressed')
                    except Exception as e:       # noqa
                        w.fail('bad_encoding', klass, 'request %r: advertised gzip body does not decompress: %r' % (tgt, e))
                        break
                if SECRET in body:
                    w.fail('outside_content_served', klass, 'request %r returned (compressed) bytes of a file outside the root' % tgt)
                    break
                st = r['status']
                outcomes.append((st, body if st == 200 else b''))
                if st not in (200, 404):
                    w.fail('unexpected_status', klass, 'request %r answered %d' % (tgt, st))
                    break
                if st == 200:
                    w.probe('served_200')
                    if not inside:
                        w.fail('escaped_root', klass, 'request %r resolves to %r outside the root %r but got 200 (%d bytes)'
                               % (tgt, resolved, root, len(body)))
                        break
                    if fault_kind is not None and fired:
                        w.fail('content_despite_disk_error', fault_kind, 'request %r answered 200 although the file could not be read' % tgt)
                        break
                    if os_bytes is None or body != os_bytes:
                        w.fail('wrong_content', klass, 'request %r: body (%d bytes) differs from the file at %r (%s)'
                               % (tgt, len(body), resolved, 'missing' if os_bytes is None else '%d bytes' % len(os_bytes)))
                        break
                else:
                    w.probe('answered_404')
                    if klass == 'inside_plain' and not fired:
                        w.fail('inside_file_not_served', klass, 'request %r names the existing file %r inside the root but got 404'
                               % (tgt, resolved))
                        break
            if not w.failures and len(outcomes) == 2 and outcomes[0] != outcomes[1] and not fired:
                w.fail('query_changed_result', klass, 'path %r: without query -> %r, with ?%s -> %r'
                       % (path, outcomes[0][0], query, outcomes[1][0]))
        res.nontrivial = nontrivial
        res.features = g.features
        res.states = {hash((klass, fault_kind, mcl, query)) & 0xffffffff}
        res.scenario = {'path': path, 'query': query, 'class': klass, 'resolved': resolved.replace(scratch_dir(), '<scratch>'),
                        'mcl': mcl, 'fault': fault_kind, 'trailing_root': trailing}
        return scen.end_run(w, h, res)
