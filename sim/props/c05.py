"""C05  One connection cannot take down or stall the executor serving the others."""
from typing import Any, Dict, FrozenSet, List, Optional, Tuple

from . import Gen, Result

ID = 'C05'
TITLE = 'One connection cannot take down or stall the executor serving the others'
RULE = ('one run = one adversarial connection (garbage / mutated / truncated requests, non-UTF-8 bytes, abrupt '
        'close or reset at a drawn point, an upstream that refuses, black-holes, is unreachable, fails to '
        'resolve, resets, stalls or answers garbage, a route plugin that raises, and injected errno values on '
        'its own sockets only) plus 1-3 well-behaved canary connections (forward, tunnel, web, reverse) sharing '
        'one real executor, concurrent and subsequent; each canary is first run alone in a twin world and its '
        'transcripts compared; non-trivial = the adversary did something other than a clean exchange while a '
        'canary was in flight or before a later canary; distinct = distinct event-log digests')
PROBES = ['short_idle_timeout', 'adv_stalled_upload', 'front_tls', 'adv_plaintext_on_tls_port', 'adv_upstream_bad_framing', 'adv_upstream_gone_with_output_pending', 'adv_garbage', 'adv_truncated', 'adv_nonutf8', 'adv_bad_upstream', 'adv_plugin_raises',
          'adv_faults', 'adv_reverse', 'adv_web', 'adv_tunnel', 'canary_concurrent', 'canary_subsequent',
          'worker_survived_task_exception', 'blocking_connect_timeout']
COMPONENTS = {
    'real': ['proxy/core/work/threadless.py', 'proxy/core/work/fd/*.py', 'proxy/http/handler.py',
             'proxy/http/proxy/server.py', 'proxy/http/server/web.py', 'proxy/http/server/reverse.py',
             'proxy/core/base/tcp_upstream.py', 'proxy/core/base/tcp_server.py', 'proxy/core/connection/*.py',
             'proxy/http/parser/*', 'proxy/http/exception/*'],
    'stub': ['kernel incl. fault injection', 'peers', 'generated route plugins'],
}
ASSUMPTIONS = ['TLS interception roles are excluded; the proxy\'s own TLS front (--cert-file/--key-file) is included in 15% of the '
               'runs with an adversary that either handshakes properly or sends plaintext / garbage at once and goes away (a peer '
               'that stays silent or stops reading during the blocking handshake stalls the worker by design and is outside the role list)',
               'a blocking connect() to a black-holed upstream legitimately stalls the worker for the 10 s connect '
               'timeout; canaries must finish within that plus 6 virtual seconds',
               'canary outcomes are compared by bytes and close kind, never by timing']
TIERS = {
    'quick': {'runs': 5000, 'budget_s': 45},
    'thorough': {'runs': 500000, 'budget_s': 900},
}

_px: Dict[str, Any] = {}


def setup_worker(job: Dict[str, Any]) -> None:
    # certificate for the proxy's own TLS front (--cert-file / --key-file), used by the 'front_tls' scenarios
    from ..tls import fixtures, origin_cert
    px = fixtures(job['scratch'])
    _px.update(px)
    _px['front'] = origin_cert(px, 'proxy.example', 'good')


CANARY_RESP = b'HTTP/1.1 200 OK\r\nX-Canary: 1\r\nContent-Length: 11\r\n\r\ncanary-body'


def _world_setup(w: Any, tape: Any, opts: Dict[str, Any], adv_plugin_raises: bool,
                 front_tls: bool = False, idle_timeout: int = 3600) -> Tuple[Any, Any, Dict[str, Any]]:
    """Flags and origins common to the twin and the main world."""
    from ..actors import Origin
    from ..harness import L1, make_flags
    from ..plugins import make_reverse_plugin, make_web_route_plugin
    from proxy.http.server import HttpWebServerBasePlugin, httpProtocolTypes

    class RaisingRoute(HttpWebServerBasePlugin):    # type: ignore[misc]
        def routes(self) -> List[Tuple[int, str]]:
            return [(httpProtocolTypes.HTTP, r'/boom')]

        def handle_request(self, request: Any) -> None:
            self._boomed = True
            raise RuntimeError('route plugin failure')

        def on_client_connection_close(self) -> None:
            # ... and it fails again when told that the connection is over (inside the work's shutdown())
            if getattr(self, '_boomed', False):
                raise RuntimeError('route plugin failure at close')

    canary_route = make_web_route_plugin(7, r'/canary', lambda tg: b'canary-web:' + tg)
    rp = make_reverse_plugin([(r'/rcanary', [b'http://10.0.0.9/base']),
                              (r'/radv', [b'http://10.0.0.66/adv']),
                              (r'/radv2', [b'http://10.0.0.67/adv2'])])
    if front_tls:
        opts = dict(opts, cert_file=_px['front']['cert'], key_file=_px['front']['key'])
    flags = make_flags(['--enable-reverse-proxy'], threadless=True, local_executor=1, timeout=idle_timeout,
                       enable_web_server=True, plugins=[canary_route, RaisingRoute, rp], **opts)

    def canary_responder(peer: Any, info: Dict[str, Any]) -> List[Any]:
        return [('send', CANARY_RESP, 'burst')]
    origins = {}
    origins['fwd'] = Origin(w, '10.0.0.8', 80, lambda i: [('serve', canary_responder, 10)], name='canary-fwd')
    origins['rev'] = Origin(w, '10.0.0.9', 80, lambda i: [('serve', canary_responder, 10)], name='canary-rev')
    origins['tun'] = Origin(w, '10.0.0.7', 443, lambda i: [('wait_rx', lambda p: len(p.rx) >= 9),
                                                           ('send', b'tunnel-pong', 'burst')], name='canary-tun')
    h = L1(w, flags)
    return flags, h, origins


def _canary(w: Any, h: Any, k: int, kind: str, start: float, front_tls: bool = False) -> Any:
    import ssl
    from ..actors import Peer
    from .c04 import count_responses
    script: List[Any] = [('sleep', start), ('connect',)] if start > 0 else [('connect',)]
    if front_tls:
        script += [('tls_client', ssl.create_default_context(cafile=_px['pub_cert']), 'proxy.example'), ('wait_tls',)]
    if kind == 'fwd':
        req = b'GET http://10.0.0.8/c%d HTTP/1.1\r\nHost: 10.0.0.8\r\n\r\n' % k
        script += [('send', req, 'burst'), ('wait_rx', lambda p: count_responses(bytes(p.rx)) >= 1)]
        script += [('send', req, 'burst'), ('wait_rx', lambda p: count_responses(bytes(p.rx)) >= 2), ('close',)]
    elif kind == 'tun':
        script += [('send', b'CONNECT 10.0.0.7:443 HTTP/1.1\r\nHost: 10.0.0.7:443\r\n\r\n', 'burst'),
                   ('wait_rx', lambda p: b'\r\n\r\n' in p.rx), ('send', b'tunnelping', 'burst'),
                   ('wait_rx', lambda p: p.rx.endswith(b'tunnel-pong')), ('close',)]
    elif kind == 'web':
        req = b'GET /canary HTTP/1.1\r\nHost: localhost\r\nX-Req-Tag: w%d\r\n\r\n' % k
        # if the reply announces 'Connection: close' the canary waits for the proxy's close (whenever the worker gets to
        # it) instead of racing it with its own
        script += [('send', req, 'burst'), ('wait_rx', lambda p: count_responses(bytes(p.rx)) >= 1),
                   ('wait_rx', lambda p: b'connection: close' not in bytes(p.rx).lower()), ('close',)]
    else:
        req = b'GET /rcanary HTTP/1.1\r\nHost: localhost\r\n\r\n'
        script += [('send', req, 'burst'), ('wait_rx', lambda p: count_responses(bytes(p.rx)) >= 1), ('close',)]
    p = Peer(w, 'canary%d' % k, script)
    p.connect_fn = h.connector()
    p.kind = kind       # type: ignore[attr-defined]
    return p


def _transcripts(canaries: List[Any], origins: Dict[str, Any]) -> Dict[str, Any]:
    t: Dict[str, Any] = {}
    for c in canaries:
        t[c.name] = (bytes(c.rx), 'reset' if c.saw_reset else 'eof' if c.saw_eof else 'open', c.finished())
    for k, o in origins.items():
        t['origin:' + k] = sorted(bytes(x.rx) for x in o.conns)
    return t


def run_one(tape: Any, cfg: Dict[str, Any], forbid: FrozenSet[str] = frozenset()) -> Result:
    from ..actors import Origin, Peer
    from ..kernel import World
    from ..tape import Tape
    from .. import scen

    scen.shared_state_begin()
    g = Gen(tape, forbid)
    res = Result()
    ncan = 1 + tape.draw(3, 'ncanaries')
    kinds = [['fwd', 'tun', 'web', 'rev'][tape.draw(4, 'ckind')] for _ in range(ncan)]
    starts = [[0.0, 0.0, 0.02, 0.5, 13.0][tape.draw(5, 'cstart')] for _ in range(ncan)]
    opts = scen.proxy_opts(tape, 64)
    twin_seed = tape.draw(1 << 30, 'twin')
    # the proxy itself may terminate TLS (--cert-file/--key-file): its handshake runs inside the work's initialize()
    front_tls = g.feature('front_tls', 0.15)
    if front_tls:
        opts.pop('client_recvbuf_size', None)       # below a TLS record decrypted bytes would sit inside OpenSSL

    # a short idle timeout brings the worker's periodic sweep over all connections into play (it runs outside any work's task)
    idle_timeout = [3600, 3600, 3][tape.draw(3, 'idle-timeout')]

    # ---- twin world: canaries alone ----------------------------------------------
    with World(Tape(twin_seed)) as tw:
        _, th, torigins = _world_setup(tw, tw.tape, opts, False, front_tls, idle_timeout)
        tcan = [_canary(tw, th, k, kinds[k], starts[k], front_tls) for k in range(ncan)]
        tw.settle(2.0, 120.0)
        ref = _transcripts(tcan, torigins)
        twin_ok = all(c.finished() for c in tcan) and not th.thread.finished
        th.stop()
    if not twin_ok:
        raise RuntimeError('canary does not complete when alone: %r' % {k: v for k, v in ref.items() if k.startswith('canary')})

    # ---- main world ------------------------------------------------------------------
    with World(tape) as w:
        scen.sched_swarm(w, tape)
        flags, h, origins = _world_setup(w, tape, opts, True, front_tls, idle_timeout)
        if idle_timeout < 3600:
            w.probe('short_idle_timeout')
        canaries = [_canary(w, h, k, kinds[k], starts[k], front_tls) for k in range(ncan)]
        if front_tls:
            w.probe('front_tls')
        for k in range(ncan):
            w.probe('canary_concurrent' if starts[k] < 1 else 'canary_subsequent')
        # -- adversary ----------------------------------------------------------------
        arole = ['forward', 'tunnel', 'web', 'reverse'][tape.draw(4, 'arole')]
        # archetype: a well-formed exchange whose client reads slowly or not at all while the upstream delivers a large
        # response and goes away -- the adversary then lingers with output pending while canaries come and go
        slow_reader = g.feature('adv_slow_reader', 0.15)
        if slow_reader:
            arole = ['forward', 'reverse'][tape.draw(2, 'sr-role')]
        # archetype: a well-formed request whose upstream answers with hostile message framing
        hostile_upstream = (not slow_reader) and g.feature('adv_hostile_upstream', 0.1)
        if hostile_upstream:
            arole = ['forward', 'reverse'][tape.draw(2, 'hu-role')]
        # archetype: an upload through a tunnel whose upstream accepts but never reads; the client leaves while the proxy still
        # holds bytes for that upstream
        stalled_upload = (not slow_reader) and (not hostile_upstream) and (not front_tls) and g.feature('adv_stalled_upload', 0.1)
        if stalled_upload:
            arole = 'tunnel'
            w.probe('adv_stalled_upload')
        w.probe({'forward': 'adv_bad_upstream', 'tunnel': 'adv_tunnel', 'web': 'adv_web', 'reverse': 'adv_reverse'}[arole])
        faults = scen.setup_faults(w, tape, {
            'send': ['ECONNRESET', 'EPIPE', 'ETIMEDOUT', 'EHOSTUNREACH', 'ENOBUFS', 'short', 'eagain'],
            'recv': ['ECONNRESET', 'ETIMEDOUT', 'EHOSTUNREACH', 'ENETUNREACH', 'ENOBUFS'],
            'connect': ['ECONNREFUSED', 'ETIMEDOUT', 'EHOSTUNREACH', 'ENETUNREACH', 'ENOBUFS'],
            'getaddrinfo': ['EAI_NONAME', 'EAI_AGAIN'],
            # registering / re-arming one of the adversary's descriptors with the worker's selector fails
            'epoll_ctl': ['ENOMEM', 'ENOSPC'],
        }, p_on=0.5, budget=6)
        if slow_reader or stalled_upload:
            # these archetypes are about a well-behaved but slow / stuck connection: no injected errors
            w.fault_p = 0.0
            faults = False
        if faults:
            w.probe('adv_faults')
        # the adversary's upstream
        up_mode = ['accept', 'refuse', 'blackhole', 'hostunreach', 'netunreach', 'reset', 'noresolve',
                   'stall', 'garbage', 'close_mid', 'big_close', 'bad_framing'][tape.draw(12, 'upmode')]
        if slow_reader:
            up_mode = 'big_close'
        if hostile_upstream:
            up_mode = 'bad_framing'
        if stalled_upload:
            up_mode = 'noread'
        if up_mode == 'blackhole' and not g.note('blocking_connect_timeout'):
            up_mode = 'refuse'
        if up_mode == 'blackhole':
            w.probe('blocking_connect_timeout')
        w.dns['adv.example'] = ['10.0.0.66']
        w.fault_hosts.add('adv.example')

        def adv_script(idx: int) -> List[Any]:
            if up_mode == 'noread':
                return [('pause_read',), ('sleep', 60.0), ('close',)]
            if up_mode == 'stall':
                return [('wait_eof',)]
            if up_mode == 'garbage':
                return [('wait_rx', lambda p: len(p.rx) > 0), ('send', b'\x00\xffnot http at all\r\n\r\n' * 3, 'dribble', 16), ('close',)]
            if up_mode == 'bad_framing':
                w.probe('adv_upstream_bad_framing')
                r = [b'HTTP/1.1 200 OK\r\nContent-Length: 10\r\nContent-Length: 0\r\n\r\nabc',
                     b'HTTP/1.1 200 OK\r\nTransfer-Encoding: chunked\r\n\r\n-5\r\nabc\r\n0\r\n\r\n',
                     b'HTTP/1.1 200 OK\r\nTransfer-Encoding: chunked\r\n\r\nzz\r\nabc\r\n0\r\n\r\n',
                     b'HTTP/1.1 200 OK\r\nContent-Length: -1\r\n\r\nabc',
                     b'HTTP/1.1 200 OK\r\nContent-Length: 3\r\nTransfer-Encoding: chunked\r\n\r\nffffffffffffffffffff\r\nabc'][tape.draw(5, 'badframing')]
                return [('wait_rx', lambda p: len(p.rx) > 0), ('send', r, 'dribble', 16), ('sleep', 0.2), ('close',)]
            if up_mode == 'big_close':
                # a large response, then the upstream goes away while the proxy may still hold output for a slow client
                w.probe('adv_upstream_gone_with_output_pending')
                return [('wait_rx', lambda p: len(p.rx) > 0),
                        ('send', b'HTTP/1.1 200 OK\r\nContent-Length: 30000\r\n\r\n' + b'z' * 30000, 'burst'),
                        [('close',), ('reset',)][tape.draw(2, 'bigkind')]]
            if up_mode == 'close_mid':
                return [('wait_rx', lambda p: len(p.rx) > 0),
                        ('send', b'HTTP/1.1 200 OK\r\nContent-Length: 100\r\n\r\npartial', 'burst'),
                        [('close',), ('reset',)][tape.draw(2, 'midkind')]]

            def responder(peer: Any, info: Dict[str, Any]) -> List[Any]:
                return [('send', b'HTTP/1.1 200 OK\r\nContent-Length: 3\r\n\r\nadv', 'burst')]
            return [('serve', responder, 5)]
        rmode = up_mode if up_mode in ('refuse', 'blackhole', 'hostunreach', 'netunreach', 'reset') else 'accept'
        for ip in ('10.0.0.66', '10.0.0.67'):
            o = Origin(w, ip, 80, adv_script, name='adv-up', mode=rmode, latency=[0.0, 0.0, 0.3][tape.draw(3, 'lat')])
            o.remote.faultable = faults
            o2 = Origin(w, ip, 443, adv_script, name='adv-up443', mode=rmode, cap_in=1024 if stalled_upload else 65536, reading=not stalled_upload)
            o2.remote.faultable = faults
        host = b'adv.example' if up_mode != 'noresolve' else b'nosuch.example'
        # the adversary's client bytes
        akind = ['valid', 'garbage', 'truncated', 'nonutf8', 'mutated'][tape.weighted([3, 2, 3, 2, 2], 'akind')]
        if slow_reader or hostile_upstream or stalled_upload:
            akind = 'valid'
        if arole == 'forward':
            base = b'GET http://' + host + b'/a HTTP/1.1\r\nHost: ' + host + b'\r\nX-A: 1\r\n\r\n'
        elif arole == 'tunnel':
            base = b'CONNECT ' + host + b':443 HTTP/1.1\r\nHost: ' + host + b':443\r\n\r\n'
        elif arole == 'web':
            path = [b'/boom', b'/nosuch', b'/canary', b'/boom?x=1'][tape.draw(4, 'wpath')]
            if path.startswith(b'/boom'):
                w.probe('adv_plugin_raises')
            base = b'GET ' + path + b' HTTP/1.1\r\nHost: localhost\r\n\r\n'
        else:
            path = [b'/radv', b'/radv2', b'/rnone'][tape.draw(3, 'rpath')]
            base = b'GET ' + path + b' HTTP/1.1\r\nHost: localhost\r\n\r\n'
        data = base
        if akind == 'garbage':
            data = scen.body_bytes(tape, 1 + tape.draw(200, 'glen'), 'garbage')
            w.probe('adv_garbage')
        elif akind == 'nonutf8':
            pos = tape.draw(len(base.split(b'\r\n')[0]), 'nupos')
            if not g.note('nonutf8_request_line'):
                pass
            else:
                data = base[:pos] + [b'\xff', b'\xc3', b'\x80\x80', b'\xfe\xff'][tape.draw(4, 'nubytes')] + base[pos:]
                w.probe('adv_nonutf8')
        elif akind == 'mutated':
            b2 = bytearray(base)
            for _ in range(1 + tape.draw(4, 'nmut')):
                i = tape.draw(len(b2), 'mpos')
                op = tape.draw(3, 'mop')
                if op == 0:
                    b2[i] = tape.draw(256, 'mbyte')
                elif op == 1:
                    del b2[i]
                else:
                    b2[i:i] = bytes([tape.draw(256, 'mbyte')])
                if not b2:
                    b2 = bytearray(b'x')
            data = bytes(b2)
        cutoff = len(data)
        if akind == 'truncated' or tape.coin(0.3, 'cut?'):
            cutoff = tape.draw(len(data) + 1, 'cutoff')
            w.probe('adv_truncated')
        ending = ['close', 'reset', 'shut_wr', 'hang', 'follow'][tape.draw(5, 'ending')]
        if hostile_upstream or stalled_upload:
            cutoff = len(data)
        if stalled_upload:
            ending = ['close', 'reset', 'shut_wr'][tape.draw(3, 'su-ending')]
        if slow_reader:
            cutoff = len(data)
            ending = 'hang'
        ascript: List[Any] = [('sleep', [0.0, 0.01, 0.3][tape.draw(3, 'astart')]), ('connect',)]
        if front_tls:
            import ssl
            if tape.coin(0.5, 'adv-tls'):
                # the adversary speaks TLS properly and misbehaves inside the session
                ascript += [('tls_client', ssl.create_default_context(cafile=_px['pub_cert']), 'proxy.example'), ('wait_tls',)]
            else:
                # plaintext / garbage on the TLS port: the handshake inside initialize() fails.  (A peer that stays silent
                # during the blocking handshake is outside this property: the adversary sends at once and goes away.)
                w.probe('adv_plaintext_on_tls_port')
                if cutoff < 8:
                    cutoff = min(len(data), 8) or 0
                if cutoff == 0:
                    data, cutoff = b'GET / HTTP/1.1\r\n\r\n', 18
                ending = ['close', 'reset'][tape.draw(2, 'tls-ending')]
        mode = ['burst', 'dribble'][tape.draw(2, 'amode')]
        ascript.append(('send', data[:cutoff], mode, 16))
        if stalled_upload:
            ascript += [('wait_rx', lambda p: b'\r\n\r\n' in p.rx), ('send', b'U' * 40000, 'burst'), ('wait_drain',),
                        ('sleep', [0.0, 0.05, 0.5][tape.draw(3, 'su-wait')])]
        if arole == 'reverse' and ending == 'follow':
            # a second keep-alive request, possibly to another route
            ascript.append(('wait_rx', lambda p: len(p.rx) > 0))
            p2 = [b'/radv', b'/radv2', b'/rnone'][tape.draw(3, 'rpath2')]
            ascript.append(('send', b'GET ' + p2 + b' HTTP/1.1\r\nHost: localhost\r\n\r\n', 'burst'))
        if ending in ('hang', 'follow'):
            ascript.append(('sleep', [0.0, 0.5, 2.0, 15.0][tape.draw(4, 'hang') if not slow_reader else 2 + tape.draw(2, 'hang')]))
        if ending == 'shut_wr':
            ascript.append(('shut_wr',))
            ascript.append(('sleep', 1.0))
        ascript.append(('reset',) if ending == 'reset' else ('close',))
        adv = Peer(w, 'adversary', ascript, read_mode='chunky')
        if tape.coin(0.3 if up_mode != 'big_close' else 0.7, 'adv-noread'):
            adv.reading = False
        elif slow_reader:
            adv.read_max = 64
        if front_tls:
            adv.reading = True      # a peer that does not read stalls the blocking handshake: out of this property's scope
        acap1, acap2 = scen.pick_cap(tape, 16, 'acap1'), scen.pick_cap(tape, 16, 'acap2')
        if slow_reader:
            acap2 = min(acap2, 1024)        # the response must not fit into the client's receive queue
        adv.connect_fn = h.connector(cap_to_proxy=acap1, cap_to_client=acap2, faultable=faults)

        # ---- run --------------------------------------------------------------------------
        w.settle(3.0, 200.0)
        scen.executor_check(w, h)
        # ---- oracle --------------------------------------------------------------------------
        if not w.failures and not w.hung:
            got = _transcripts(canaries, origins)
            for c in canaries:
                if not c.finished():
                    w.fail('canary_stalled', c.kind, '%s (%s) did not complete next to the adversary (%s/%s/%s); got %r'
                           % (c.name, c.kind, arole, akind, up_mode, got[c.name][0][:80]))
                    break
                same = got[c.name][:2] == ref[c.name][:2]
                if not same and idle_timeout < 3600 and ref[c.name][1] == 'open' and got[c.name][0] == ref[c.name][0]:
                    same = True         # an idle canary left open in the short twin run was reaped in the longer main run
                if not same:
                    w.fail('canary_differs', c.kind, '%s (%s): with adversary %r, alone %r'
                           % (c.name, c.kind, got[c.name][:2], ref[c.name][:2]))
                    break
            if not w.failures:
                for k in origins:
                    if got['origin:' + k] != ref['origin:' + k]:
                        w.fail('canary_origin_differs', k, 'origin %s received %r, alone %r'
                               % (k, got['origin:' + k], ref['origin:' + k]))
                        break
            if not w.failures:
                # no canary is held up longer than the blocking socket calls the adversary legitimately caused
                blocked = getattr(h.thread, 'blocked_total', 0.0)
                for k, c in enumerate(canaries):
                    if c.done_time is not None and tcan[k].done_time is not None:
                        extra = c.done_time - tcan[k].done_time
                        if extra > blocked + 2.0:
                            w.fail('canary_starved', c.kind, '%s completed %.1f virtual seconds later than alone; the worker spent '
                                   '%.1f s in blocking socket calls (adversary %s/%s/%s)' % (c.name, extra, blocked, arole, akind, up_mode))
                            break
        survived = any(True for qn, t in w.long_tasks if False)
        res.nontrivial = (akind != 'valid' or up_mode != 'accept' or ending in ('reset',) or faults)
        res.features = g.features
        res.scenario = {'canaries': list(zip(kinds, starts)), 'adv_role': arole, 'adv_kind': akind, 'up_mode': up_mode,
                        'ending': ending, 'cutoff': cutoff, 'data': data[:200].decode('latin-1'), 'opts': opts,
                        'faults': dict(w.fault_kinds), 'fault_p': w.fault_p}
        return scen.end_run(w, h, res, shared_check=True)
