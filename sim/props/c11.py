"""C11  TLS interception issues a valid per-host cert and never trusts a bad upstream."""
import os
import shutil
import ssl
from typing import Any, Dict, FrozenSet, List, Optional, Tuple

from . import Gen, Result

ID = 'C11'
TITLE = 'TLS interception issues a valid per-host cert and never trusts a bad upstream'
RULE = ('one run = one CONNECT to a drawn host (DNS names, IPv4 and bracketed IPv6 literals) through the real executor with '
        'TLS interception configured (test CA made with the openssl binary, proxy.py\'s own certificate generation run for '
        'real through its openssl subprocess, cold or warm certificate cache); the origin terminates TLS (real OpenSSL over '
        'the simulated network) with a drawn certificate situation (trusted, self-signed, wrong name, expired, unusual subject), both '
        'settings of --insecure-tls-interception and of a per-request opt-out plugin; the client runs a *verifying* TLS '
        'client (trust = the proxy CA only, server_hostname = the CONNECT host) and exchanges 1-2 generated requests '
        'inside it; TLS records are segmented and partially written like any other bytes (drawn socket capacities, '
        'short writes / EAGAIN); in runs with a second CONNECT host one openssl invocation of the first host\'s certificate '
        'generation may time out (injected at the subprocess seam of common/pki.py): that tunnel must fail closed and the '
        'second host must still be served; non-trivial = the origin certificate is bad, or the host is a literal, or records were '
        'segmented / partially written, or the opt-out is used; distinct = distinct event-log digests')
PROBES = ['second_host', 'trusted_origin', 'selfsigned_origin', 'wrongname_origin', 'expired_origin', 'insecure_switch', 'opt_out',
          'ip_literal_host', 'ipv6_literal_host', 'cold_cache', 'warm_cache', 'second_request', 'request_body',
          'client_verified_leaf', 'bad_origin_refused', 'partial_tls_write', 'want_write_retry', 'large_response', 'long_host_name', 'odd_subject_origin',
          'openssl_timeout', 'failed_generation_closed_tunnel', 'retry_same_host', 'retry_after_failed_generation_served']
COMPONENTS = {
    'real': ['proxy/http/proxy/server.py (intercept, wrap_server, wrap_client, certificate generation)',
             'proxy/core/connection/server.py (wrap)', 'proxy/core/connection/client.py (wrap)', 'proxy/common/pki.py + the '
             'openssl binary (real subprocess)', 'Python ssl / OpenSSL (real handshakes, real verification)',
             'proxy/http/handler.py', 'proxy/core/work/threadless.py', 'proxy/http/parser/*'],
    'stub': ['kernel (TLS records travel over simulated sockets: sim/tls.py SimTLSSocket = real SSLObject over MemoryBIO, one '
             'record per read, SSLWantWriteError on an incompletely written record)', 'TLS client and TLS origin (scripted '
             'peers around real SSLObjects)', 'test PKI', 'HttpProxyPlugin.lock (the simulator\'s SimLock instead of '
             'threading.Lock)', 'subprocess as seen by proxy/common/pki.py (pass-through shim; injects TimeoutExpired)'],
}
ASSUMPTIONS = ['OpenSSL\'s certificate-validity clock is the real clock ("expired" = notAfter in the real past)',
               'the proxy\'s receive buffers are left at their defaults (a receive buffer smaller than a TLS record would leave '
               'decrypted bytes pending inside OpenSSL where select() cannot see them; that configuration is not exercised)',
               'blocking TLS handshakes with a silent peer are outside this property',
               'key material is random per worker; digests contain record lengths only (serial numbers are fixed so that '
               'lengths do not vary)']
TIERS = {
    'quick': {'runs': 480, 'budget_s': 75, 'watchdog_s': 120, 'max_body': 3000, 'large': 40000},
    'thorough': {'runs': 40000, 'budget_s': 900, 'watchdog_s': 120, 'max_body': 60000, 'large': 400000},
}
STATE_MEASURE = 'distinct (host kind, certificate situation, insecure, opt-out, cache state) tuples'
HOSTS = [('secure.example', '10.0.7.1', 'name'), ('other.example', '10.0.7.2', 'name'), ('10.0.7.3', '10.0.7.3', 'ipv4'),
         ('[2001:db8::7]', '2001:db8::7', 'ipv6'),
         # a valid DNS name longer than the 64 characters an X.509 commonName may hold (such origins carry the name in the SAN)
         ('a' * 30 + '.' + 'b' * 30 + '.long-host.example', '10.0.7.5', 'longname'),
         # a neighbour of the IPv6 literal above (same up to the last group): only ever the second host of a run
         ('[2001:db8::8]', '2001:db8::8', 'ipv6')]
_px: Dict[str, Any] = {}
# fault seam: proxy/common/pki.py reaches the openssl binary through `subprocess.Popen(...).communicate(timeout=...)`; the shim
# below stands in for the `subprocess` name of that module only.  Armed, it lets the drawn one of the (up to three) openssl
# invocations for the first host run into its time-out (the child is not started); it then disarms itself: the fault has stopped.
_ossl: Dict[str, Any] = {'armed': None, 'world': None, 'calls': 0, 'fired': 0}


class _SubprocessShim:
    def __init__(self, real: Any) -> None:
        self._real = real
        self.PIPE = real.PIPE
        self.TimeoutExpired = real.TimeoutExpired

    def __getattr__(self, name: str) -> Any:
        return getattr(self._real, name)

    def Popen(self, command: Any, **kw: Any) -> Any:
        a = _ossl['armed']
        if a is not None and any(a['needle'] in str(x) for x in command):
            k = _ossl['calls']
            _ossl['calls'] += 1
            if k == a['step']:
                _ossl['armed'] = None
                _ossl['fired'] += 1
                w = _ossl['world']
                w.stats['fault:openssl_timeout'] += 1
                w.ev('fault', 'openssl_timeout', k)
                return _TimedOutChild(self._real, command)
        return self._real.Popen(command, **kw)


class _TimedOutChild:
    returncode = None

    def __init__(self, real: Any, command: Any) -> None:
        self._real, self._command = real, command

    def communicate(self, input: Any = None, timeout: Any = None) -> Any:
        raise self._real.TimeoutExpired(self._command, timeout)


def setup_worker(job: Dict[str, Any]) -> None:
    from ..tls import fixtures, origin_cert
    px = fixtures(job['scratch'])
    _px.update(px)
    # origin certificates are made up front (real openssl runs outside any World)
    for host, _, _ in HOSTS:
        for kind in ('good', 'selfsigned', 'wrongname', 'expired', 'oddsubject', 'emptysubject'):
            _px[(host, kind)] = origin_cert(px, host.strip('[]'), kind)
    import subprocess
    import proxy.common.pki as pki
    if not isinstance(pki.subprocess, _SubprocessShim):
        pki.subprocess = _SubprocessShim(subprocess)   # type: ignore[assignment]


def run_one(tape: Any, cfg: Dict[str, Any], forbid: FrozenSet[str] = frozenset()) -> Result:
    from ..actors import Origin, Peer
    from ..harness import L1, make_flags, scratch_dir
    from ..httpgen import gen_request, h11_parse_requests
    from ..kernel import World
    from ..plugins import make_proxy_plugin
    from .. import scen

    g = Gen(tape, forbid)
    res = Result()
    with World(tape) as w:
        w.spin_budget_s = 90.0       # real openssl child processes run inside the executor thread
        scen.sched_swarm(w, tape)
        host, ip, hkind = HOSTS[tape.weighted([4, 2, 2, 1, 1, 0], 'host')]
        if hkind == 'longname':
            w.probe('long_host_name')
        if hkind in ('ipv4', 'ipv6') and not g.note('ip_literal_host'):
            host, ip, hkind = HOSTS[0]
        if hkind == 'ipv4':
            w.probe('ip_literal_host')
        if hkind == 'ipv6':
            w.probe('ipv6_literal_host')
        bare = host.strip('[]')
        w.dns['secure.example'] = ['10.0.7.1']
        w.dns['other.example'] = ['10.0.7.2']
        w.dns[HOSTS[4][0]] = ['10.0.7.5']
        situation = ['good', 'selfsigned', 'wrongname', 'expired', 'oddsubject', 'emptysubject'][tape.weighted([5, 2, 2, 1, 1, 1], 'cert')]
        if situation in ('oddsubject', 'emptysubject') and not g.note('odd_upstream_subject'):
            situation = 'good'
        # (oddsubject / emptysubject: trusted and rightly named; only the subject is unusual - separators inside a value, or none)
        w.probe({'good': 'trusted_origin', 'selfsigned': 'selfsigned_origin', 'wrongname': 'wrongname_origin',
                 'expired': 'expired_origin', 'oddsubject': 'odd_subject_origin', 'emptysubject': 'odd_subject_origin'}[situation])
        insecure = g.feature('insecure_switch', 0.25)
        opt_out = g.feature('opt_out', 0.15)
        cold = g.feature('cold_cache', 0.15)
        second_host = (not opt_out) and g.feature('second_host', 0.3)
        if second_host:
            cold = True         # both hosts' certificates are then generated within this run, whatever ran before
        # fault: one openssl invocation of the first host's certificate generation times out (second CONNECT then shows whether
        # the proxy still serves other hosts afterwards); placed inside the operation that holds the generation lock
        _ossl.update(armed=None, world=w, calls=0, fired=0)
        # the process-wide certificate-generation lock becomes a lock the scheduler owns (fresh per run: the class attribute
        # outlives a run), so that waiting for it is an event of the simulation and not a real thread parked for ever
        from ..mp import SimLock
        from proxy.http.proxy.server import HttpProxyPlugin
        HttpProxyPlugin.lock = SimLock()    # type: ignore[assignment]
        retry_same = False
        R2 = b'HTTP/1.1 200 OK\r\nContent-Length: 6\r\n\r\nsecond'
        if second_host and g.feature('openssl_timeout', 0.35):
            _ossl['armed'] = {'needle': os.sep + bare + '.', 'step': tape.draw(3, 'openssl-step')}
            # the second CONNECT is then either to another host or a retry of the same one (generation resumes from whatever
            # the interrupted attempt left in the cache directory); the retry needs an origin the proxy accepts
            retry_same = (situation in ('good', 'oddsubject', 'emptysubject') or insecure) and tape.coin(0.4, 'retry-same')
        if insecure:
            w.probe('insecure_switch')
        if opt_out:
            w.probe('opt_out')
        w.probe('cold_cache' if cold else 'warm_cache')
        # the leaf's subject is copied from the upstream certificate seen when it was generated: one warm cache per
        # certificate situation keeps a run a function of its seed alone
        certdir = os.path.join(_px['warm_dir'], situation)
        os.makedirs(certdir, exist_ok=True)
        if cold:
            certdir = os.path.join(scratch_dir(), 'cold-%d' % tape.draw(1 << 30, 'coldid'))
            os.makedirs(certdir, exist_ok=True)
        plog: List[Any] = []
        plugins = [make_proxy_plugin(1, {'do_intercept': 'no'} if opt_out else {}, plog)] if (opt_out or tape.coin(0.2, 'plug')) else []
        if plugins and tape.coin(0.5, 'second-plugin'):
            # a second, passive plugin after the first: one plugin's opt-out stands whatever later plugins answer
            plugins.append(make_proxy_plugin(2, {}, plog))
        floor = 1
        caps = [scen.pick_cap(tape, 64, 'cap%d' % i) for i in range(4)]
        faults = scen.setup_faults(w, tape, {'send': ['short', 'eagain']}, budget=200)
        args = ['--insecure-tls-interception'] if insecure else []
        flags = make_flags(args, threadless=True, local_executor=1, timeout=3600, ca_key_file=_px['ca_key'],
                           ca_cert_file=_px['ca_cert'], ca_signing_key_file=_px['signing_key'], ca_cert_dir=certdir,
                           ca_file=_px['pub_cert'], plugins=plugins)
        h = L1(w, flags)
        # ---- the conversation inside the tunnel ----------------------------------------------------------------
        nreq = 1 + tape.weighted([3, 1], 'nreq')
        reqs: List[Tuple[bytes, Dict[str, Any]]] = []
        resps: List[bytes] = []
        for i in range(nreq):
            raw, meta = gen_request(tape, g, form='origin', host=bare.encode(), max_body=cfg['max_body'], allow_http10=False,
                                    methods=[b'GET', b'POST', b'PUT', b'DELETE'], allow_chunked=False)
            reqs.append((raw, meta))
            if meta['body']:
                w.probe('request_body')
            big = tape.coin(0.25, 'bigresp')
            if big:
                w.probe('large_response')
            n = cfg['large'] if big else tape.draw(500, 'resplen')
            body = (b'%d:' % i) * (n // 2 + 1)
            resps.append(b'HTTP/1.1 200 OK\r\nContent-Length: %d\r\nX-I: %d\r\n\r\n' % (n, i) + body[:n])
        if nreq > 1:
            w.probe('second_request')
        # keep the number of segment moves per run bounded (a 400 kB reply through 64-byte buffers is 10^5 scheduler steps per hop)
        floor = max(64, scen.unit_floor(sum(len(r) for r in resps) + sum(len(r) for r, _ in reqs), 3000))
        caps = [max(c, floor) for c in caps]
        oc = _px[(host, situation)]
        sctx = ssl.SSLContext(ssl.PROTOCOL_TLS_SERVER)
        sctx.load_cert_chain(oc['cert'], oc['key'])

        def origin_script(idx: int) -> List[Any]:
            def responder(peer: Any, info: Dict[str, Any]) -> List[Any]:
                return [('send', resps[min(peer.served - 1, len(resps) - 1)], 'burst')]
            if idx >= 1 and retry_same:
                # the retry after a failed generation (below): a fresh connection from the proxy, one small exchange
                return [('tls_server', sctx), ('wait_tls',), ('serve', lambda p, info: [('send', R2, 'burst')], 1), ('wait_eof',), ('close',)]
            return [('tls_server', sctx), ('wait_tls',), ('serve', responder, nreq), ('wait_eof',), ('close',)]
        org = Origin(w, ip, 443, origin_script, name='tls-origin', cap_in=caps[0], cap_out=caps[1], read_mode='chunky')
        org.remote.faultable = faults
        # the client trusts the proxy CA when intercepted, the public CA when tunnelled end to end
        cctx = ssl.create_default_context(cafile=_px['pub_cert'] if opt_out else _px['ca_cert'])
        hp = host.encode() + b':443'
        script: List[Any] = [('connect',), ('send', b'CONNECT ' + hp + b' HTTP/1.1\r\nHost: ' + hp + b'\r\n\r\n', 'burst'),
                             ('wait_rx', lambda p: b'\r\n\r\n' in p.rx),
                             ('call', lambda p: (setattr(p, 'ack', bytes(p.rx)), p.rx.clear())),
                             ('tls_client', cctx, bare), ('wait_tls',)]
        done = 0
        for i, (raw, meta) in enumerate(reqs):
            script.append(('send', raw, 'dribble', 4096))
            done += len(resps[i])
            script.append(('wait_rx', (lambda n: (lambda p: len(p.rx) >= n))(done)))
        script += [('sleep', 0.1), ('close',)]
        cl = Peer(w, 'client', script, read_mode='chunky')
        cl.ack = b''        # type: ignore[attr-defined]
        cl.connect_fn = h.connector(cap_to_proxy=max(caps[2], 256), cap_to_client=caps[3], faultable=faults)
        # ---- optionally a second CONNECT, to another host, sharing the certificate cache -------------------------------
        cl2 = None
        host2 = None
        if second_host:
            w.probe('second_host')
            host2, ip2, _ = [x for x in HOSTS[:3] if x[0] != host][tape.draw(2, 'host2')]
            if hkind == 'ipv6' and tape.coin(0.7, 'host2-v6'):
                host2, ip2, _ = HOSTS[5]
            if retry_same:
                w.probe('retry_same_host')
                host2, ip2 = host, ip
            else:
                oc2 = _px[(host2, 'good')]
                sctx2 = ssl.SSLContext(ssl.PROTOCOL_TLS_SERVER)
                sctx2.load_cert_chain(oc2['cert'], oc2['key'])
                Origin(w, ip2, 443, lambda i: [('tls_server', sctx2), ('wait_tls',), ('serve', lambda p, info: [('send', R2, 'burst')], 1),
                                               ('wait_eof',), ('close',)], name='tls-origin2')
            cctx2 = ssl.create_default_context(cafile=_px['ca_cert'])
            hp2 = host2.encode() + b':443'
            cl2 = Peer(w, 'client2', [('sleep', 1.0), ('connect',),
                                      ('send', b'CONNECT ' + hp2 + b' HTTP/1.1\r\nHost: ' + hp2 + b'\r\n\r\n', 'burst'),
                                      ('wait_rx', lambda p: b'\r\n\r\n' in p.rx), ('call', lambda p: p.rx.clear()),
                                      ('tls_client', cctx2, host2.strip('[]')), ('wait_tls',),
                                      ('send', b'GET /2 HTTP/1.1\r\nHost: ' + host2.encode() + b'\r\n\r\n', 'burst'),
                                      ('wait_rx', lambda p: p.rx.endswith(b'second')), ('close',)])
            cl2.connect_fn = h.connector()
        w.settle(2.0, 300.0)
        scen.executor_check(w, h)
        gen_failed = bool(_ossl['fired'])
        _ossl.update(armed=None, world=None)
        if gen_failed:
            w.probe('openssl_timeout')
        if cold:
            shutil.rmtree(certdir, ignore_errors=True)

        # ---- oracle -------------------------------------------------------------------------------------------------
        sig = '%s:%s%s%s' % (hkind, situation, ':insecure' if insecure else '', ':optout' if opt_out else '')
        relay_expected = situation in ('good', 'oddsubject', 'emptysubject') or (insecure and not opt_out)
        if not w.failures and not w.hung:
            ot = org.conns[0].tls if org.conns and org.conns[0].tls is not None else None
            orx = bytes(org.conns[0].rx) if org.conns else b''
            ct = cl.tls
            ack = getattr(cl, 'ack', b'')
            if gen_failed:
                # injected: certificate generation for this host timed out.  Narrow relaxation: this one tunnel may fail, but it
                # must fail closed (nothing relayed, no client session, connection closed); everything else is checked as usual
                if orx:
                    w.fail('data_sent_without_client_session', sig, 'certificate generation timed out, yet the origin received %r' % orx[:80])
                elif ct is not None and ct.done:
                    w.fail('client_session_without_certificate', sig, 'client completed TLS although certificate generation timed out')
                elif not (cl.saw_eof or cl.saw_reset):
                    w.fail('tunnel_left_open', sig, 'certificate generation timed out: the tunnel was not closed')
                else:
                    w.probe('failed_generation_closed_tunnel')
            elif not ack.startswith(b'HTTP/1.1 200'):
                w.fail('no_tunnel_ack', sig, 'CONNECT was not acknowledged: %r' % ack[:80])

            elif opt_out:
                # opaque tunnel: the client's TLS goes end to end to the origin; the proxy must not have touched it
                if situation in ('good', 'oddsubject', 'emptysubject'):
                    if ct is None or not ct.done:
                        w.fail('opt_out_not_opaque', sig, 'opted-out tunnel: end-to-end TLS with the origin failed: %s %s'
                               % (ct and ct.error, ct and ct.error_detail))
                    elif ct.peercert_der != _der(oc['cert']):
                        w.fail('opt_out_not_opaque', sig, 'opted-out tunnel: the client was shown a certificate other than the origin\'s')
                    elif bytes(cl.rx) != b''.join(resps) or not _same_requests(orx, reqs, h11_parse_requests):
                        w.fail('opt_out_data_differs', sig, 'opted-out tunnel did not carry the conversation byte for byte')
                else:
                    if ct is not None and ct.done:
                        w.fail('opt_out_not_opaque', sig, 'client verified a bad origin certificate through an opaque tunnel?!')
            elif relay_expected:
                if ct is None or not ct.done:
                    w.fail('client_handshake_failed', sig, 'the verifying client could not complete TLS with the proxy for CONNECT %s: %s %s'
                           % (host, ct and ct.error, ct and ct.error_detail))
                else:
                    san = [v for k, v in (ct.peercert or {}).get('subjectAltName', ())]
                    issuer = dict(x[0] for x in (ct.peercert or {}).get('issuer', ()))
                    if issuer.get('commonName') != 'sim proxy CA':
                        w.fail('leaf_not_from_configured_ca', sig, 'issuer %r' % (issuer,))
                    elif not any(_names(v, bare) for v in san):
                        w.fail('leaf_does_not_name_host', sig, 'subjectAltName %r does not cover %s' % (san, bare))
                    else:
                        w.probe('client_verified_leaf')
                    if not w.failures and (ot is None or not ot.done):
                        w.fail('upstream_handshake_failed', sig, 'origin side TLS did not complete: %s' % (ot and ot.error))
                    if not w.failures and not _same_requests(orx, reqs, h11_parse_requests):
                        w.fail('request_differs_inside_tls', sig, 'origin decrypted %r..., client sent %r...'
                               % (orx[:120], reqs[0][0][:120]))
                    if not w.failures and bytes(cl.rx) != b''.join(resps):
                        exp = b''.join(resps)
                        kind = 'response_truncated_inside_tls' if exp.startswith(bytes(cl.rx)) else 'response_altered_inside_tls'
                        w.fail(kind, sig, 'client decrypted %d bytes, origin sent %d (eof=%s reset=%s, tls closed=%s)'
                               % (len(cl.rx), len(exp), cl.saw_eof, cl.saw_reset, ct.closed))
            else:
                # bad origin certificate and verification on: nothing may be relayed in either direction
                if orx:
                    w.fail('data_sent_to_untrusted_origin', sig, 'origin with a %s certificate received application data %r' % (situation, orx[:80]))
                elif cl.rx:
                    w.fail('data_relayed_from_untrusted_origin', sig, 'client received %r' % bytes(cl.rx)[:80])
                elif ct is not None and ct.done:
                    w.fail('client_session_despite_bad_origin', sig, 'client completed a TLS session although the origin certificate is %s' % situation)
                elif not (cl.saw_eof or cl.saw_reset):
                    w.fail('tunnel_left_open', sig, 'origin certificate is %s: the tunnel was not closed' % situation)
                else:
                    w.probe('bad_origin_refused')
        if not w.failures and not w.hung and cl2 is not None:
            t2 = cl2.tls
            if t2 is None or not t2.done:
                w.fail('client_handshake_failed', 'second_host', 'second CONNECT (%s, after %s, shared certificate cache): the verifying '
                       'client could not complete TLS: %s %s' % (host2, host, t2 and t2.error, t2 and t2.error_detail))
            elif not bytes(cl2.rx).endswith(b'second'):
                w.fail('response_truncated_inside_tls', 'second_host', 'second CONNECT: client got %r' % bytes(cl2.rx)[:60])
            elif retry_same and gen_failed:
                w.probe('retry_after_failed_generation_served')
        if w.stats.get('short_write', 0) or w.stats.get('fault:short', 0):
            w.probe('partial_tls_write')
        if w.stats.get('eagain_send', 0) or w.stats.get('fault:eagain', 0):
            w.probe('want_write_retry')
        res.nontrivial = bool(situation != 'good' or hkind != 'name' or opt_out or w.stats.get('short_write', 0) or w.stats.get('eagain_send', 0))
        res.features = g.features
        res.states = {hash((hkind, situation, insecure, opt_out, cold)) & 0xffffffff}
        res.scenario = {'host': host, 'origin_cert': situation, 'insecure': insecure, 'opt_out': opt_out, 'cold_cache': cold,
                        'caps': caps, 'requests': [r.decode('latin-1')[:200] for r, _ in reqs], 'resp_sizes': [len(r) for r in resps],
                        'faults': dict(w.fault_kinds), 'openssl_timeout': gen_failed}
        return scen.end_run(w, h, res)


def _der(pem_path: str) -> bytes:
    with open(pem_path) as f:
        return ssl.PEM_cert_to_DER_cert(f.read())


def _names(san_value: str, host: str) -> bool:
    import ipaddress
    try:
        return ipaddress.ip_address(san_value) == ipaddress.ip_address(host)
    except ValueError:
        return san_value.lower() == host.lower()


def _same_requests(orx: bytes, reqs: List[Tuple[bytes, Dict[str, Any]]], parse: Any) -> bool:
    p = parse(orx)
    if p['error'] or len(p['requests']) != len(reqs):
        return False
    for r, (raw, meta) in zip(p['requests'], reqs):
        if r['method'] != meta['method'] or r['target'] != meta['path'] or r['body'] != meta['body']:
            return False
        FR = (b'content-length', b'transfer-encoding')
        a = sorted((n.lower(), v.strip()) for n, v in meta['headers'] if n.lower() not in FR)
        b = sorted((n.lower(), v.strip()) for n, v in r['headers'] if n.lower() not in FR and n.lower() != b'via')
        if a != b:
            return False
    return True
