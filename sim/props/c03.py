"""C03  Incremental HTTP parsing does not depend on how input is segmented.

Degenerate one-party simulation: the only node is one HttpParser (or one
ChunkParser); the simulated transport delivers a generated self-delimiting
message M followed by trailing bytes T in tape-chosen pieces.
"""
from typing import Any, Dict, FrozenSet, List, Optional, Tuple

from . import Gen, Result

ID = 'C03'
TITLE = 'Incremental HTTP parsing does not depend on how input is segmented'
RULE = ('one run = one generated self-delimiting message (request or response framed by Content-Length '
        'or chunked encoding, body-less request, header-less status line, or a bare chunked stream) plus '
        'trailing bytes, delivered to a fresh parser in pieces cut at tape-chosen positions (none / '
        'uniform / biased to CR|LF, header and chunk boundaries / one byte per piece); non-trivial = at '
        'least two pieces; distinct = distinct (message, cut-list) digests among non-trivial runs')
STATE_MEASURE = 'distinct (parser state before piece, cut-kind) pairs: the parser automaton state when a piece boundary falls'
PROBES = ['request', 'response', 'chunkparser', 'chunked', 'bytewise', 'trailing_bytes',
          'cut_in_crlf', 'cut_data_crlf', 'cut_in_size_line']
COMPONENTS = {
    'real': ['proxy/http/parser/parser.py', 'proxy/http/parser/chunk.py', 'proxy/http/url.py', 'proxy/common/utils.py'],
    'stub': ['transport (the piece list)'],
}
ASSUMPTIONS = ['messages are generated valid by construction; their length and decoded content are known '
               'to the generator independently of the parser',
               'close-delimited framing is excluded, as the property states']
TIERS = {
    'quick': {'runs': 60000, 'budget_s': 30, 'max_body': 200},
    'thorough': {'runs': 6000000, 'budget_s': 900, 'max_body': 3000},
}


def _observe_http(p: Any) -> Tuple[Any, ...]:
    u = p._url
    return (
        p.state, p.is_complete, p.method, p.version, p.code, p.reason, p.host, p.port, p.path,
        None if u is None else (u.scheme, u.username, u.password, u.hostname, u.port, u.remainder),
        None if p.headers is None else tuple(sorted((k, v[0], v[1]) for k, v in p.headers.items())),
        p.body, None if p.buffer is None else bytes(p.buffer),
        p.is_chunked_encoded, p.content_expected, p.is_https_tunnel,
    )


def run_one(tape: Any, cfg: Dict[str, Any], forbid: FrozenSet[str] = frozenset()) -> Result:
    import hashlib
    from proxy.http.parser import ChunkParser, HttpParser, chunkParserStates, httpParserTypes
    from ..httpgen import chunk_encode, gen_cuts, gen_request, gen_response, pieces
    from .. import scen

    g = Gen(tape, forbid)
    res = Result()
    fails: List[Tuple[str, str, str]] = []
    stats: Dict[str, int] = {}

    def probe(n: str) -> None:
        stats['probe:' + n] = stats.get('probe:' + n, 0) + 1

    kind = ['request', 'response', 'chunkparser'][tape.weighted([4, 4, 2], 'kind')]
    probe(kind)
    exp: Dict[str, Any] = {}
    marks: List[int] = []
    trailing_ok = True
    if kind == 'request':
        form = ['absolute', 'origin', 'connect'][tape.weighted([4, 3, 1], 'form')]
        M, meta = gen_request(tape, g, form=form, host=b'up.example',
                              port=[None, 8080, 80][tape.draw(3, 'port')], max_body=cfg['max_body'])
        marks = meta['marks']
        exp = {'body': meta['body'] if meta['framing'] != 'none' else None, 'framing': meta['framing'],
               'method': meta['method'], 'version': meta['version']}
        if meta['framing'] == 'none':
            trailing_ok = False
        if meta['framing'] == 'length' and len(meta['body']) == 0:
            g.note('content_length_zero')
    elif kind == 'response':
        if g.feature('headerless_status_line', 0.1):
            M = [b'HTTP/1.1 200 Connection established\r\n\r\n', b'HTTP/1.1 200 OK\r\n\r\n',
                 b'HTTP/1.0 404 Not Found\r\n\r\n'][tape.draw(3, 'sl')]
            exp = {'body': None, 'framing': 'none'}
            marks = [len(M) - 4, len(M) - 3, len(M) - 2, len(M) - 1]
            trailing_ok = False
        else:
            M, meta = gen_response(tape, g, cfg['max_body'], allow_close=False, allow_interim=False)
            # statuses without a body and without framing are close-delimited for this parser: excluded
            if meta['framing'] == 'none':
                M = b'HTTP/1.1 200 OK\r\nContent-Length: 3\r\n\r\nabc'
                meta = {'framing': 'length', 'body': b'abc', 'marks': [17, 18, 36, 37, 38, 39], 'head_len': 39}
            marks = list(meta.get('marks', [])) + [meta['head_len'] - 2, meta['head_len'] - 1, meta['head_len']]
            exp = {'body': meta['body'], 'framing': meta['framing']}
            if meta['framing'] == 'length' and len(meta['body']) == 0:
                g.note('content_length_zero')
    else:
        body = scen.body_bytes(tape, scen.size(tape, 60, cfg['max_body'], 'cbody'), 'cbody')
        M, marks = chunk_encode(tape, g, body)
        exp = {'body': body, 'framing': 'chunked'}
    if exp.get('framing') == 'chunked':
        probe('chunked')
    T = b''
    if trailing_ok and tape.coin(0.5, 'trailing'):
        T = [b'GET / HTTP/1.1\r\n\r\n', b'\r\n', b'x', b'HTTP/1.1 200 OK\r\nContent-Length: 0\r\n\r\n',
             b'0\r\n\r\n', b'\x00\xff'][tape.draw(6, 'T')]
        probe('trailing_bytes')
    data = M + T
    cuts = gen_cuts(tape, len(data), marks + [len(M)])
    # neutralisers for known findings act on the cut list
    def cut_kind(c: int) -> str:
        if 0 < c < len(data) and data[c - 1:c + 1] == b'\r\n':
            return 'cut_in_crlf'
        return ''
    if 'cut_in_crlf' in forbid:
        cuts = [c for c in cuts if cut_kind(c) != 'cut_in_crlf']
    if any(cut_kind(c) == 'cut_in_crlf' for c in cuts):
        g.note('cut_in_crlf')
        probe('cut_in_crlf')
    if exp.get('framing') == 'chunked':
        # marks come in triples (after size line, after data, after data CRLF)
        data_ends = set(marks[1::3]) if kind == 'chunkparser' else set(marks[1::3])
        if 'cut_data_crlf' in forbid:
            cuts = [c for c in cuts if c not in data_ends]
        if any(c in data_ends for c in cuts):
            g.note('cut_data_crlf')
            probe('cut_data_crlf')
        # a cut strictly inside a chunk-size line (between the previous boundary and the end of the size line)
        size_ends = marks[0::3]
        prev_ends = [0 if kind == 'chunkparser' else exp.get('head_len', 0)] + marks[2::3]
        if any(a < c < b for c in cuts for a, b in zip(prev_ends, size_ends)):
            probe('cut_in_size_line')
    ps = pieces(data, cuts)
    if len(ps) == len(data) and len(data) > 1:
        probe('bytewise')

    def mk() -> Any:
        if kind == 'chunkparser':
            return ChunkParser()
        return HttpParser(httpParserTypes.REQUEST_PARSER if kind == 'request'
                          else httpParserTypes.RESPONSE_PARSER)

    def complete(p: Any) -> bool:
        if kind == 'chunkparser':
            return bool(p.state == chunkParserStates.COMPLETE)
        return bool(p.is_complete)

    # twin: fed whole
    twin = mk()
    twin_exc: Optional[BaseException] = None
    twin_rem = b''
    try:
        r = twin.parse(memoryview(data))
        if kind == 'chunkparser':
            twin_rem = bytes(r)
    except Exception as e:     # noqa
        twin_exc = e
    # subject: fed in pieces
    sub = mk()
    delivered = 0
    rem = b''
    early = late = False
    states = set()
    for i, pc in enumerate(ps):
        if kind == 'chunkparser':
            st_before = (sub.state, sub.size is not None, bool(sub.chunk))
        else:
            st_before = (sub.state, sub.chunk.state if sub.chunk else 0)
        states.add(hash((kind, st_before, data[delivered - 1:delivered + 1] == b'\r\n')) & 0xffffffff)
        try:
            r = sub.parse(memoryview(pc))
        except Exception as e:     # noqa
            fails.append(('parser_raised', '%s:%s' % (kind, type(e).__name__),
                          'parse() raised %r on piece %d/%d of valid input; cuts=%s' % (e, i, len(ps), cuts[:12])))
            break
        delivered += len(pc)
        if kind == 'chunkparser':
            # the decoder hands back what it did not consume
            rem = bytes(r)
            if complete(sub):
                pass
            elif rem:
                # not complete but returned bytes: they would be lost by the caller
                fails.append(('remainder_before_complete', kind, 'decoder returned %r while incomplete' % rem[:20]))
                break
        c = complete(sub)
        if c and delivered < len(M):
            early = True
            fails.append(('complete_early', kind, 'reported complete after %d of %d message bytes; cuts=%s; tail=%r'
                          % (delivered, len(M), cuts[:12], data[max(0, delivered - 6):delivered])))
            break
        if not c and delivered >= len(M):
            late = True
            fails.append(('complete_late', kind, 'not complete although all %d message bytes (+%d) were supplied; '
                          'cuts=%s' % (len(M), delivered - len(M), cuts[:12])))
            break
    if not fails:
        # final state vs twin and vs generator ground truth
        if twin_exc is not None:
            fails.append(('parser_raised', '%s:%s' % (kind, type(twin_exc).__name__),
                          'parse() raised %r on valid input fed whole' % (twin_exc,)))
        elif kind == 'chunkparser':
            if (sub.state, sub.body, sub.size) != (twin.state, twin.body, twin.size):
                fails.append(('state_differs', kind, 'pieces: %r / whole: %r' % ((sub.state, sub.body[:40]), (twin.state, twin.body[:40]))))
            elif sub.body != exp['body']:
                fails.append(('wrong_body', kind, 'decoded %r, expected %r' % (sub.body[:40], exp['body'][:40])))
            else:
                # remainder: everything after M, across the pieces that followed completion
                pass
        else:
            a, b = _observe_http(sub), _observe_http(twin)
            if a != b:
                names = ['state', 'is_complete', 'method', 'version', 'code', 'reason', 'host', 'port', 'path', 'url',
                         'headers', 'body', 'buffer', 'chunked', 'content_expected', 'tunnel']
                diff = [n for n, x, y in zip(names, a, b) if x != y]
                fails.append(('state_differs', '%s:%s' % (kind, ','.join(diff)),
                              'fed in pieces %s vs whole; cuts=%s' % (diff, cuts[:12])))
            else:
                got_rem = b'' if sub.buffer is None else bytes(sub.buffer)
                if got_rem != T:
                    fails.append(('wrong_remainder', kind, 'remainder %r, expected %r' % (got_rem[:40], T[:40])))
                elif exp['body'] is not None and (sub.body or b'') != exp['body']:
                    fails.append(('wrong_body', kind, 'decoded %r.., expected %r..' % ((sub.body or b'')[:40], exp['body'][:40])))
    res.failures = fails
    h = hashlib.blake2b(digest_size=16)
    h.update(data)
    h.update(repr(cuts).encode())
    h.update(kind.encode())
    res.digest = h.hexdigest()
    res.nontrivial = len(ps) >= 2
    res.stats = stats
    res.features = g.features
    res.states = states
    res.events = len(ps)
    res.steps = len(ps)
    res.scenario = {'kind': kind, 'message': M.decode('latin-1'), 'trailing': T.decode('latin-1'), 'cuts': cuts[:40],
                    'n_pieces': len(ps)}
    res.log = ['piece %d: %r' % (i, p[:60]) for i, p in enumerate(ps[:20])]
    return res
