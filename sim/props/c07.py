"""C07  Queued output is fully delivered before the proxy closes a connection."""
import os
from typing import Any, Dict, FrozenSet, List, Optional, Tuple

from . import Gen, Result

ID = 'C07'
TITLE = 'Queued output is fully delivered before the proxy closes a connection'
RULE = ('one run = one connection whose output is known by construction (canned 400/404/407/502 pages, a web '
        'route queuing a response of drawn size in 1..n pieces and then asking for teardown, a static file, '
        'or upstream data followed by the upstream closing at a drawn moment) read by a client at a drawn pace '
        'through a small receive buffer, with injected short writes / EAGAIN on the client socket, in '
        'threadless and thread-per-connection mode; non-trivial = at least one send() to the client was short '
        'or hit EAGAIN or the client paused reading while output was pending; distinct = distinct event-log digests')
PROBES = ['upload_reset', 'tunnel_class', 'short_idle_timeout', 'err400', 'err404', 'err407', 'err502', 'pieces', 'static', 'upstream_close', 'threaded',
          'client_paused', 'teardown_deferred', 'upstream_closed_with_output_pending', 'eof', 'reset_after_data', 'client_readable_during_drain']
COMPONENTS = {
    'real': ['proxy/core/base/tcp_server.py', 'proxy/http/handler.py', 'proxy/core/connection/connection.py',
             'proxy/core/work/threadless.py', 'proxy/core/work/threaded.py', 'proxy/http/proxy/server.py',
             'proxy/http/server/web.py', 'proxy/http/server/plugin.py', 'proxy/http/responses.py'],
    'stub': ['kernel incl. short-write / EAGAIN injection', 'peers', 'generated route plugin'],
}
ASSUMPTIONS = ['the client keeps reading (it may pause for a bounded time)',
               'end-of-stream is EOF or a reset observed after all data (close() with unread client input makes the '
               'kernel send RST; no loss of data already accepted by the kernel is modelled)',
               'the expected output of the canned error pages is the repository\'s own packet constant: the property '
               'is about delivery, not content (content is C06)']
TIERS = {
    'quick': {'runs': 8000, 'budget_s': 40, 'max_out': 200000, 'max_units': 300},
    'thorough': {'runs': 600000, 'budget_s': 900, 'watchdog_s': 600, 'max_out': 2 << 20, 'max_units': 4000},
}


def setup_worker(job: Dict[str, Any]) -> None:
    d = os.path.join(job['scratch'], 'static7')
    os.makedirs(d, exist_ok=True)
    import random
    r = random.Random(7)
    for n in (0, 1, 5, 700, 5000, 70000, 1 << 20):
        with open(os.path.join(d, 'f%d.bin' % n), 'wb') as f:
            f.write(r.randbytes(n))


def run_one(tape: Any, cfg: Dict[str, Any], forbid: FrozenSet[str] = frozenset()) -> Result:
    from ..actors import Origin, Peer
    from ..harness import L1, L3, make_flags, scratch_dir
    from ..httpgen import h11_parse_responses
    from ..kernel import World
    from .. import scen
    from proxy.http.exception import HttpProtocolException
    from proxy.http.responses import (BAD_GATEWAY_RESPONSE_PKT, BAD_REQUEST_RESPONSE_PKT, NOT_FOUND_RESPONSE_PKT,
                                      PROXY_AUTH_FAILED_RESPONSE_PKT)
    from proxy.http.server import HttpWebServerBasePlugin, httpProtocolTypes

    g = Gen(tape, forbid)
    res = Result()
    with World(tape) as w:
        scen.sched_swarm(w, tape)
        w.dns['up.example'] = ['10.0.0.1']
        mode = ['err400', 'err404', 'err407', 'err502', 'pieces', 'static', 'upstream_close', 'tunnel_class', 'upload_reset'][
            tape.weighted([1, 1, 1, 1, 4, 2, 4, 2, 2], 'mode')]
        if mode == 'upload_reset' and not g.note('upstream_write_failure'):
            mode = 'upstream_close'
        threaded = g.feature('threaded', 0.25)
        if mode == 'tunnel_class':
            # the library's tunnel base class (proxy.core.base.BaseTcpTunnelHandler, as used by examples/https_connect_tunnel.py)
            if g.note('tunnel_base_class'):
                threaded = False
            else:
                mode = 'upstream_close'
        w.probe(mode)
        if threaded:
            w.probe('threaded')
        static_dir = os.path.join(scratch_dir(), 'static7')
        expected: Optional[bytes] = None
        pieces: List[bytes] = []
        req = b'GET / HTTP/1.1\r\nHost: x\r\n\r\n'
        opts: Dict[str, Any] = {}
        plugins: List[type] = []
        out_size = 0
        upstream_resp = b''
        if mode == 'err400':
            req = b'NOT-HTTP\r\n\r\n'
            expected = bytes(BAD_REQUEST_RESPONSE_PKT)
        elif mode == 'err404':
            req = b'GET /nosuch HTTP/1.1\r\nHost: x\r\n\r\n'
            expected = bytes(NOT_FOUND_RESPONSE_PKT)
        elif mode == 'err407':
            req = b'GET http://up.example/ HTTP/1.1\r\nHost: up.example\r\n\r\n'
            opts['basic_auth'] = 'u:p'
            expected = bytes(PROXY_AUTH_FAILED_RESPONSE_PKT)
        elif mode == 'err502':
            req = b'GET http://10.0.0.99/ HTTP/1.1\r\nHost: 10.0.0.99\r\n\r\n'
            expected = bytes(BAD_GATEWAY_RESPONSE_PKT)
        elif mode == 'pieces':
            n = scen.size(tape, 400, cfg['max_out'], 'outsize')
            body = scen.body_bytes(tape, n, 'out')
            head = b'HTTP/1.1 200 OK\r\nContent-Length: %d\r\nConnection: close\r\n\r\n' % n
            npieces = 1 + tape.small(12, 'npieces')
            pieces = [head]
            pos = 0
            for i in range(npieces):
                if i == npieces - 1:
                    sz = n - pos
                else:
                    sz = tape.draw(max(1, (n - pos) // max(1, npieces - i) * 2 + 1), 'piece')
                    sz = min(sz, n - pos)
                pieces.append(body[pos:pos + sz])
                pos += sz
            pieces = [p for p in pieces if p] if tape.coin(0.7, 'drop-empty') else pieces
            expected = b''.join(pieces)
            req = b'GET /pieces HTTP/1.1\r\nHost: x\r\n\r\n'
            the_pieces = pieces

            class PiecesRoute(HttpWebServerBasePlugin):     # type: ignore[misc]
                def routes(self) -> List[Tuple[int, str]]:
                    return [(httpProtocolTypes.HTTP, r'/pieces$')]

                def handle_request(self, request: Any) -> None:
                    for p in the_pieces:
                        self.client.queue(memoryview(p))
                    raise HttpProtocolException('done, please tear down')
            plugins = [PiecesRoute]
        elif mode == 'static':
            sizes = [s for s in (0, 1, 5, 700, 5000, 70000, 1 << 20) if s <= max(cfg['max_out'], 5000)]
            n = sizes[tape.draw(len(sizes), 'fsize')]
            req = b'GET /f%d.bin HTTP/1.1\r\nHost: x\r\n\r\n' % n
            opts['min_compression_length'] = 1 << 30
            with open(os.path.join(static_dir, 'f%d.bin' % n), 'rb') as f:
                file_bytes = f.read()
        elif mode == 'upload_reset':
            # a tunnel: the client uploads more than the upstream will ever read, the upstream answers and then resets; the
            # proxy learns of the end when its next write towards the upstream fails, with the answer still queued for a client
            # that reads slowly
            from proxy.http.responses import PROXY_TUNNEL_ESTABLISHED_RESPONSE_PKT
            n = scen.size(tape, 400, cfg['max_out'], 'upsize')
            upstream_resp = scen.body_bytes(tape, n, 'up')
            expected = bytes(PROXY_TUNNEL_ESTABLISHED_RESPONSE_PKT) + upstream_resp
            req = b'CONNECT up.example:443 HTTP/1.1\r\nHost: up.example:443\r\n\r\n'
        elif mode == 'tunnel_class':
            from proxy.http.responses import PROXY_TUNNEL_ESTABLISHED_RESPONSE_PKT
            n = scen.size(tape, 400, cfg['max_out'], 'upsize')
            upstream_resp = scen.body_bytes(tape, n, 'up')
            expected = bytes(PROXY_TUNNEL_ESTABLISHED_RESPONSE_PKT) + upstream_resp
            req = b'CONNECT up.example:443 HTTP/1.1\r\nHost: up.example:443\r\n\r\n'
        else:
            n = scen.size(tape, 400, cfg['max_out'], 'upsize')
            body = scen.body_bytes(tape, n, 'up')
            if tape.coin(0.5, 'up-framing'):
                upstream_resp = b'HTTP/1.1 200 OK\r\nContent-Length: %d\r\n\r\n' % n + body
            else:
                upstream_resp = b'HTTP/1.0 200 OK\r\n\r\n' + body
            expected = upstream_resp
            req = b'GET http://up.example/big HTTP/1.1\r\nHost: up.example\r\n\r\n'
        out_size = len(expected) if expected is not None else n + 200
        floor = scen.unit_floor(out_size, cfg['max_units'])
        caps = [scen.pick_cap(tape, floor, 'cap%d' % i) for i in range(4)]
        opts.update(scen.proxy_opts(tape, floor))
        faults = scen.setup_faults(w, tape, {'send': ['short', 'eagain']}, budget=300)
        # a short idle timeout must not matter while output is pending: the reaper may only take idle connections
        idle_timeout = [3600, 3600, 2, 1][tape.draw(4, 'idle-timeout')]
        if idle_timeout < 3600:
            w.probe('short_idle_timeout')
        flags = make_flags(threadless=not threaded, threaded=threaded, local_executor=1, timeout=idle_timeout,
                           enable_web_server=True, enable_static_server=(mode == 'static'),
                           static_server_dir=static_dir, plugins=plugins, **opts)
        if mode == 'tunnel_class':
            from ..tunnelclass import tunnel_flags
            opts['client_recvbuf_size'] = max(opts.get('client_recvbuf_size', 1 << 20), 128)   # the class wants the CONNECT in one read
            flags = tunnel_flags(**opts)
        h: Any = L3(w, flags) if threaded else L1(w, flags)
        if mode == 'tunnel_class':
            close_kind = ('close',)
            maxchunk = max(floor, [1 << 16, 512, 16][tape.draw(3, 'upchunk')])
            delay = [0.0, 0.0, 0.05, 2.0][tape.draw(4, 'updelay')]
            tops: List[Any] = [('send', upstream_resp, 'dribble', maxchunk)] + ([('sleep', delay)] if delay else []) + [close_kind]
            org = Origin(w, '10.0.0.1', 443, lambda i: list(tops), name='up', cap_in=caps[0], cap_out=caps[1], read_mode='chunky')
        if mode == 'upload_reset':
            maxchunk = max(floor, [1 << 16, 512][tape.draw(2, 'upchunk')])
            delay = [0.0, 0.05, 0.5][tape.draw(3, 'updelay')]
            uops: List[Any] = [('pause_read',), ('wait_rx', lambda p: p.st is not None and len(p.st.rx) > 0),
                               ('send', upstream_resp, 'dribble', maxchunk)] + ([('sleep', delay)] if delay else []) + [('reset',)]
            org = Origin(w, '10.0.0.1', 443, lambda i: list(uops), name='up', cap_in=1024, cap_out=caps[1], read_mode='chunky', reading=False)
        if mode == 'upstream_close':
            close_kind = [('close',), ('reset',)][tape.weighted([4, 1], 'upclose')]
            if close_kind == ('reset',) and not g.note('upstream_reset'):
                close_kind = ('close',)
            maxchunk = max(floor, [1 << 16, 512, 16][tape.draw(3, 'upchunk')])
            delay = [0.0, 0.0, 0.05, 2.0][tape.draw(4, 'updelay')]

            def responder(peer: Any, info: Dict[str, Any]) -> List[Any]:
                ops: List[Any] = [('send', upstream_resp, 'dribble', maxchunk)]
                if delay:
                    ops.append(('sleep', delay))
                ops.append(close_kind)
                return ops
            org = Origin(w, '10.0.0.1', 80, lambda i: [('serve', responder, 1)], name='up', cap_in=caps[0],
                         cap_out=caps[1], read_mode='chunky')
        # ---- client: reads at a drawn pace, may pause ------------------------------------
        script: List[Any] = [('connect',), ('send', req, 'burst')]
        if mode == 'upload_reset':
            script += [('wait_rx', lambda p: b'\r\n\r\n' in p.rx), ('send', b'U' * 20000, 'burst')]
        paused = tape.coin(0.4, 'pause')
        if paused:
            script += [('pause_read',), ('sleep', [0.01, 0.3, 3.0][tape.draw(3, 'pause-len')]), ('resume_read',)]
            w.probe('client_paused')
        state = {'checked': 0, 'drain': False}
        drain_act = tape.weighted([5, 2, 2], 'drain-act') if mode == 'upstream_close' else 0
        if drain_act:
            # once the proxy has seen the upstream's end-of-stream and is only draining its queue, the client (which keeps
            # reading) half-closes or sends bytes nobody will read: its descriptor is then readable for the rest of the drain
            script += [('wait_rx', lambda p: state['drain'])]
            script += [('shut_wr',)] if drain_act == 1 else [('send', b'GET http://up.example/next HTTP/1.1\r\nHost: up.example\r\n\r\n', 'burst')]
            w.probe('client_readable_during_drain')
        cl = Peer(w, 'client', script, read_mode='chunky')
        cl.read_max = max(floor, [1 << 20, 4096, 64, 3][tape.draw(4, 'readmax')])

        def on_rx(peer: Any) -> None:
            if expected is None:
                return
            c = state['checked']
            rx = peer.rx
            if len(rx) > len(expected) or rx[c:] != expected[c:len(rx)]:
                if not w.failures:
                    w.fail('wrong_output', mode, 'client received bytes that are not a prefix of the expected output at offset %d' % c)
            state['checked'] = len(rx)
        cl.on_rx = on_rx
        cl.connect_fn = h.connector(cap_to_proxy=max(caps[2], 64), cap_to_client=caps[3], faultable=faults)
        def hook(sel: Any) -> None:
            # reach probes only (no oracle reads internals): teardown waiting for the flush, upstream gone with output pending
            works = list(h.ex.works.values()) if not threaded else list(h.works)
            for wk in works:
                if getattr(wk, 'must_flush_before_shutdown', False):
                    w.stats['probe:teardown_deferred'] = 1
                if getattr(wk, 'reads_teared', False) and wk.work.has_buffer():
                    w.stats['probe:upstream_closed_with_output_pending'] = 1
                    state['drain'] = True
        w.select_hook = hook
        w.settle(2.0, 900.0)
        w.select_hook = None
        if not threaded:
            scen.executor_check(w, h)

        # ---- oracle -------------------------------------------------------------------------
        if not w.failures and not w.hung:
            rx = bytes(cl.rx)
            closed = cl.saw_eof or cl.saw_reset
            if mode == 'static':
                p = h11_parse_responses(rx, closed, [b'GET'])
                fin = [r for r in p['responses'] if not r.get('interim')]
                if p['error'] or not fin or not fin[0]['complete'] or fin[0]['status'] != 200:
                    w.fail('incomplete_output', mode, 'static file response incomplete / malformed: %s; got %d bytes, file has %d'
                           % (p['error'], len(rx), len(file_bytes)))
                elif fin[0]['body'] != file_bytes:
                    w.fail('wrong_output', mode, 'static body differs from the file (%d vs %d bytes)' % (len(fin[0]['body']), len(file_bytes)))
            else:
                assert expected is not None
                if mode == 'upload_reset' and org.conns and org.conns[0].st is not None and org.conns[0].st.peer is not None:
                    # the proxy learns of the reset from a failing write and need not read on: what it owes the client is
                    # what it had taken out of the upstream socket by then
                    taken = org.conns[0].st.peer.read_total
                    expected = expected[:len(expected) - len(upstream_resp) + min(taken, len(upstream_resp))]
                if rx != expected:
                    w.fail('incomplete_output', mode, 'client got %d of %d output bytes before %s'
                           % (len(rx), len(expected), 'end-of-stream' if closed else 'the run went quiet (no close either)'))
            if not w.failures:
                if not closed:
                    w.fail('no_close', mode, 'all output delivered but the connection was never closed')
                else:
                    w.probe('reset_after_data' if cl.saw_reset else 'eof')
                    lim = 1.0
                    ref_t = cl.t_last_rx or 0.0
                    if mode in ('upstream_close', 'tunnel_class') and org.conns and org.conns[0].done_time is not None:
                        # the proxy ends the connection because the upstream closed: measure from then
                        ref_t = max(ref_t, org.conns[0].done_time)
                    t_close = cl.t_eof
                    if mode == 'upload_reset' and h.accepted and h.accepted[-1].t_end is not None:
                        # (the client may be pausing when the end comes: take the moment the proxy ended its side)
                        t_close = h.accepted[-1].t_end
                        if org.conns and org.conns[0].done_time is not None:
                            ref_t = max(ref_t, org.conns[0].done_time)
                    if t_close is not None and t_close - ref_t > lim:
                        w.fail('late_close', mode, 'end-of-stream %.3f s after the client read the last byte / the upstream closed'
                               % (t_close - ref_t))
        res.nontrivial = bool(w.stats.get('short_write', 0) or w.stats.get('eagain_send', 0) or
                              w.stats.get('fault:short', 0) or w.stats.get('fault:eagain', 0) or paused)
        res.features = g.features
        res.scenario = {'mode': mode, 'threaded': threaded, 'out_size': out_size, 'npieces': len(pieces), 'caps': caps,
                        'opts': {k: repr(v) for k, v in opts.items()}, 'paused': paused, 'read_max': cl.read_max,
                        'faults': dict(w.fault_kinds), 'fault_p': w.fault_p}
        return scen.end_run(w, h, res)
