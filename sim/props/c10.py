"""C10  Every connection's resources are released exactly once, however it ends."""
import gc
from typing import Any, Dict, FrozenSet, List, Optional, Tuple

from . import Gen, Result

ID = 'C10'
TITLE = "Every connection's resources are released exactly once, however it ends"
RULE = ('one run = 1-12 connections on one real executor (local queue or remote pipe/descriptor-passing flavour), '
        'each running a scripted exchange in a drawn role (forward, tunnel, web, static, reverse, rejected) that '
        'is cut at a drawn prefix and ended by a drawn abort kind (client close / reset / half-close, upstream '
        'close / reset / refusal / black hole / unreachable / resolution failure, injected errno, idle timeout, '
        'or normal completion), sequentially or overlapping; after the last one the simulated descriptor table, '
        'the selector (Python map and kernel interest set) and the executor registries must be back to '
        'baseline; non-trivial = at least one connection ended by an abort; distinct = distinct event-log digests')
PROBES = ['access_log_taken_over', 'threaded', 'upload_reset', 'front_tls', 'failed_front_handshake', 'forward', 'tunnel', 'web', 'static', 'reverse', 'rejected', 'client_close', 'client_reset',
          'client_shut_wr', 'upstream_close', 'upstream_reset', 'connect_fail', 'errno_injected', 'idle_timeout',
          'normal', 'remote_executor', 'repeated', 'overlapping', 'fd_reused', 'gc_closed_socket']
COMPONENTS = {
    'real': ['proxy/core/work/threadless.py', 'proxy/core/work/fd/*.py', 'proxy/http/handler.py',
             'proxy/http/proxy/server.py', 'proxy/http/server/web.py', 'proxy/http/server/reverse.py',
             'proxy/core/base/tcp_upstream.py', 'proxy/core/connection/*.py'],
    'stub': ['kernel (descriptor table with lowest-free-number allocation, epoll two-layer model, finalisers)', 'peers'],
}
ASSUMPTIONS = ['a never-connected socket (failed connect()) dropped without close() and released by its finaliser counts as '
               'released (new_socket_connection does this; CPython refcounting runs the finaliser at once); a *connected* '
               'socket that is released only by the garbage collector is reported as a leak (socket_left_to_gc)',
               'descriptor numbers are allocated lowest-free-first per simulated process, as on Linux']
TIERS = {
    'quick': {'runs': 5000, 'budget_s': 45},
    'thorough': {'runs': 500000, 'budget_s': 900},
}
STATE_MEASURE = 'distinct (role, cut point class, abort kind, executor flavour) tuples of the connections run'


_px: Dict[str, Any] = {}


def setup_worker(job: Dict[str, Any]) -> None:
    import os
    from ..tls import fixtures, origin_cert
    px = fixtures(job['scratch'])
    _px.update(px)
    _px['front'] = origin_cert(px, 'proxy.example', 'good')     # the proxy's own TLS front (--cert-file / --key-file)
    d = os.path.join(job['scratch'], 'static10')
    os.makedirs(os.path.join(d, 'sub'), exist_ok=True)
    with open(os.path.join(d, 'a.txt'), 'wb') as f:
        f.write(b'small static file\n')
    with open(os.path.join(d, 'big.bin'), 'wb') as f:
        f.write(bytes(range(256)) * 280)
    with open(os.path.join(d, 'sub', 'b.txt'), 'wb') as f:
        f.write(b'nested\n' * 40)


def run_one(tape: Any, cfg: Dict[str, Any], forbid: FrozenSet[str] = frozenset()) -> Result:
    from ..actors import Origin, Peer
    from ..harness import L1, L1R, L3, make_flags, scratch_dir
    from ..kernel import World
    from ..plugins import make_reverse_plugin, make_web_route_plugin
    from .. import scen
    from .c04 import count_responses

    scen.shared_state_begin()
    g = Gen(tape, forbid)
    res = Result()
    with World(tape) as w:
        scen.sched_swarm(w, tape)
        remote = g.feature('remote_executor', 0.3)
        threaded = (not remote) and g.feature('threaded', 0.15)     # one handler thread per connection, its own selector and loop
        timeout_mode = g.feature('idle_timeout', 0.25)
        opts = scen.proxy_opts(tape, 16)
        route = make_web_route_plugin(1, r'/web', lambda tg: b'web-reply:' + tg + b'x' * 50)
        rp = make_reverse_plugin([(r'/rev', [b'http://10.0.0.3/base'])])
        import os
        # a TLS front: the handshake happens inside the work's initialize(); clients that speak plaintext make it fail
        front_tls = g.feature('front_tls', 0.15)
        if front_tls:
            w.probe('front_tls')
            opts = dict(opts, cert_file=_px['front']['cert'], key_file=_px['front']['key'])
            # (a receive buffer below the TLS record size leaves plaintext inside OpenSSL, invisible to select(): a separate
            # question, as in C11 and C12 - the knob stays at its default next to TLS)
            opts.pop('client_recvbuf_size', None)
        static_dir = os.path.join(scratch_dir(), 'static10')
        files_before = scen.real_fds_under(static_dir)
        xplugins: List[Any] = []
        if tape.coin(0.25, 'logging-plugin'):
            # a proxy plugin that takes over access logging (returns None from on_access_log): the documented way to do so, and
            # no reason for the rest of the connection's teardown to be skipped
            from ..plugins import make_proxy_plugin
            xplugins = [make_proxy_plugin(1, {'on_access_log': 'none'}, [])]
            w.probe('access_log_taken_over')
        flags = make_flags(['--enable-reverse-proxy'], threadless=not threaded, threaded=threaded, local_executor=0 if remote else 1,
                           timeout=2 if timeout_mode else 3600, enable_web_server=True, enable_static_server=True,
                           static_server_dir=static_dir, min_compression_length=[20, 1 << 30][tape.draw(2, 'mincomp')],
                           plugins=[route, rp] + xplugins, basic_auth=None, **opts)
        h: Any = L1R(w, flags) if remote else (L3(w, flags) if threaded else L1(w, flags))
        if remote:
            w.probe('remote_executor')
        if threaded:
            w.probe('threaded')
        baseline = set(w.main_proc.fds)
        faults = scen.setup_faults(w, tape, {
            'send': ['ECONNRESET', 'EPIPE', 'ETIMEDOUT', 'ENOBUFS', 'short', 'eagain'],
            'recv': ['ECONNRESET', 'ETIMEDOUT', 'EHOSTUNREACH', 'ENOBUFS'],
        }, p_on=0.4, budget=8)
        if faults:
            w.probe('errno_injected')
        w.dns['up.example'] = ['10.0.0.1']
        up_kind = ['serve', 'serve', 'close_mid', 'reset_mid', 'stall', 'refuse', 'blackhole', 'hostunreach', 'noresolve'][
            tape.draw(9, 'upkind')]
        if up_kind in ('close_mid', 'stall'):
            w.probe('upstream_close')
        if up_kind == 'reset_mid':
            w.probe('upstream_reset')
        if up_kind in ('refuse', 'blackhole', 'hostunreach', 'noresolve'):
            w.probe('connect_fail')

        def up_script(idx: int) -> List[Any]:
            if up_kind == 'stall':
                return [('wait_rx', lambda p: len(p.rx) > 0), ('sleep', 1.0), ('close',)]
            if up_kind in ('close_mid', 'reset_mid'):
                return [('wait_rx', lambda p: len(p.rx) > 0),
                        ('send', b'HTTP/1.1 200 OK\r\nContent-Length: 50\r\n\r\nhalf', 'burst'),
                        ('close',) if up_kind == 'close_mid' else ('reset',)]

            def responder(peer: Any, info: Dict[str, Any]) -> List[Any]:
                return [('send', b'HTTP/1.1 200 OK\r\nContent-Length: 6\r\n\r\norigin', 'burst')]
            return [('serve', responder, 10)]
        rmode = up_kind if up_kind in ('refuse', 'blackhole', 'hostunreach') else 'accept'
        origins = []
        for ip, port in (('10.0.0.1', 80), ('10.0.0.1', 443), ('10.0.0.3', 80)):
            if port == 443:
                o = Origin(w, ip, port, lambda i: [('wait_rx', lambda p: len(p.rx) >= 4), ('send', b'pong', 'burst'),
                                                   ('wait_eof',), ('close',)], name='tun', mode=rmode)
            else:
                o = Origin(w, ip, port, up_script, name='up%s' % ip[-1], mode=rmode)
            o.remote.faultable = faults
            origins.append(o)
        # (for the upload_reset role: never reads, answers, waits until the proxy has taken the answer, resets)
        ANS = b'A' * 6000
        origins.append(Origin(w, '10.0.0.4', 443, lambda i: [('wait_rx', lambda p: p.st is not None and len(p.st.rx) > 0),
                                                             ('send', ANS, 'burst'), ('wait_drain',), ('sleep', 0.05), ('reset',)],
                              name='upr', cap_in=1024, reading=False))
        host = b'up.example' if up_kind != 'noresolve' else b'nosuch.example'
        nconn = 1 + tape.weighted([3, 2, 2, 1, 1, 1], 'nconn') * (1 + tape.draw(2, 'nconn2'))
        same = tape.coin(0.5, 'same-script')
        overlap = tape.coin(0.4, 'overlap')
        if nconn > 1:
            w.probe('repeated')
            if overlap:
                w.probe('overlapping')
        clients: List[Any] = []
        first: Optional[Tuple[Any, ...]] = None
        aborted = False
        states = set()
        t0 = 0.0
        for k in range(nconn):
            if same and first is not None:
                role, cut_frac, ending = first
            else:
                role = ['forward', 'tunnel', 'web', 'static', 'reverse', 'rejected', 'upload_reset'][tape.weighted([3, 3, 3, 3, 3, 3, 2], 'role')]
                if role == 'upload_reset' and not g.note('upstream_write_failure'):
                    role = 'tunnel'
                cut_frac = tape.draw(5, 'cut')         # 0 = complete script, 1..4 = cut inside
                ending = ['normal', 'client_close', 'client_reset', 'client_shut_wr', 'idle'][tape.draw(5, 'ending')]
                first = (role, cut_frac, ending)
            if ending == 'idle' and not timeout_mode:
                ending = 'client_close'
            w.probe(role)
            w.probe({'normal': 'normal', 'client_close': 'client_close', 'client_reset': 'client_reset',
                     'client_shut_wr': 'client_shut_wr', 'idle': 'idle_timeout'}[ending])
            states.add(hash((role, cut_frac, ending, remote, up_kind)) & 0xffffffff)
            if ending != 'normal' or cut_frac:
                aborted = True
            # (a quarter of the web-server and reverse-proxy requests carry a User-Agent that is not UTF-8)
            oddua = b'User-Agent: caf\xe9/1.0\r\n' if tape.coin(0.25, 'odd-ua') else b''
            if role == 'forward':
                # (a quarter of the forward requests carry a byte that is not UTF-8 in the target: fine on the wire, awkward for
                # whatever turns the request into text when the connection ends)
                odd = b'/caf\xe9' if tape.coin(0.25, 'odd-bytes') else b''
                req = b'GET http://' + host + b'/x' + odd + b' HTTP/1.1\r\nHost: ' + host + b'\r\n\r\n'
                req2 = req
                if tape.coin(0.25, 'other-origin'):
                    # the follow-up names another origin (which origin answers it is C04's known finding; here only that
                    # whatever sockets the proxy opens for it are closed again)
                    req2 = b'GET http://10.0.0.3/y HTTP/1.1\r\nHost: 10.0.0.3\r\n\r\n'
                full: List[Any] = [('send', req, 'burst'), ('wait_rx', lambda p: count_responses(bytes(p.rx)) >= 1),
                                   ('send', req2, 'burst'), ('wait_rx', lambda p: count_responses(bytes(p.rx)) >= 2)]
            elif role == 'tunnel':
                req = b'CONNECT ' + host + b':443 HTTP/1.1\r\nHost: ' + host + b':443\r\n\r\n'
                full = [('send', req, 'burst'), ('wait_rx', lambda p: b'\r\n\r\n' in p.rx), ('send', b'ping', 'burst'),
                        ('wait_rx', lambda p: p.rx.endswith(b'pong'))]
            elif role == 'upload_reset':
                # the connection ends through a failing write towards the upstream, with the answer still queued for the client
                req = b'CONNECT 10.0.0.4:443 HTTP/1.1\r\nHost: 10.0.0.4:443\r\n\r\n'
                full = [('send', req, 'burst'), ('wait_rx', lambda p: b'\r\n\r\n' in p.rx), ('pause_read',),
                        ('send', b'U' * 20000, 'burst'), ('sleep', 1.0), ('resume_read',), ('wait_eof',)]
            elif role == 'web':
                req = b'GET /web HTTP/1.1\r\nHost: l\r\nX-Req-Tag: a\r\n' + oddua + b'\r\n'
                full = [('send', req, 'burst'), ('wait_rx', lambda p: count_responses(bytes(p.rx)) >= 1),
                        ('send', req, 'burst'), ('wait_rx', lambda p: count_responses(bytes(p.rx)) >= 2)]
            elif role == 'static':
                # a missing file, files of two sizes, a nested file, and two directories (which cannot be served)
                spath = [b'/nosuchfile', b'/a.txt', b'/big.bin', b'/sub/b.txt', b'/sub', b'/'][tape.draw(6, 'static-path')]
                req = b'GET ' + spath + b' HTTP/1.1\r\nHost: l\r\n\r\n'
                full = [('send', req, 'burst'), ('wait_eof',)]
            elif role == 'reverse':
                req = b'GET /rev HTTP/1.1\r\nHost: l\r\n' + oddua + b'\r\n'
                full = [('send', req, 'burst'), ('wait_rx', lambda p: count_responses(bytes(p.rx)) >= 1),
                        ('send', req, 'burst'), ('wait_rx', lambda p: count_responses(bytes(p.rx)) >= 2)]
            else:
                req = [b'garbage\r\n\r\n', b'GET ftp://x/ HTTP/1.1\r\n\r\n', b'GET /\xff HTTP/1.1\r\n\r\n'][tape.draw(3, 'rej')]
                full = [('send', req, 'burst'), ('wait_eof',)]
            script: List[Any] = [('sleep', t0), ('connect',)] if t0 > 0 else [('connect',)]
            if front_tls:
                if tape.coin(0.5, 'speaks-tls'):
                    import ssl
                    script += [('tls_client', ssl.create_default_context(cafile=_px['pub_cert']), 'proxy.example'), ('wait_tls',)]
                else:
                    # plaintext on the TLS port: the handshake fails and with it initialize().  The bytes go out at once and the
                    # client goes away (a peer that stays silent holds the blocking handshake, which is not this property)
                    w.probe('failed_front_handshake')
                    if ending in ('idle', 'client_shut_wr'):
                        ending = 'client_close'
                    full = [('send', req if len(req) >= 8 else req + b'padding-', 'burst')]
                    cut_frac = 0
            if cut_frac:
                # cut: keep a prefix of the script; the last kept send is itself truncated
                keep = max(1, (len(full) * cut_frac) // 5)
                part = full[:keep]
                last = part[-1]
                if last[0] == 'send' and len(last[1]) > 1:
                    part[-1] = ('send', last[1][:1 + tape.draw(len(last[1]) - 1, 'cutbytes')], 'burst')
                elif last[0].startswith('wait'):
                    part[-1] = ('sleep', [0.0, 0.01, 0.2][tape.draw(3, 'cutwait')])
                script += part
            else:
                script += full
            if role == 'upload_reset':
                script.append(('resume_read',))        # (a cut may have removed it: the client must not end up deaf)
            if ending == 'normal' or ending == 'client_close':
                script.append(('close',))
            elif ending == 'client_reset':
                script.append(('reset',))
            elif ending == 'client_shut_wr':
                script += [('shut_wr',), ('sleep', 0.5), ('close',)]
            else:
                script += [('wait_eof',), ('close',)]      # idle: wait for the reaper
            c = Peer(w, 'c%d' % k, script, read_mode='chunky')
            ccap = scen.pick_cap(tape, 64, 'ccap')
            if role == 'upload_reset':
                ccap = 65536        # the upload must fit the socket: the client writes it in one go and only then reads on
            c.connect_fn = h.connector(cap_to_proxy=ccap, cap_to_client=scen.pick_cap(tape, 16, 'ccap2'),
                                       faultable=faults)
            clients.append(c)
            if not overlap:
                t0 += [0.3, 1.5, 13.0][tape.weighted([4, 2, 1], 'gap')] if up_kind != 'blackhole' else 12.0
            else:
                t0 += [0.0, 0.01][tape.draw(2, 'ogap')]

        # invariant at every select(): registered descriptors are open
        def hook(sel: Any) -> None:
            if w.failures:
                return
            for fd in sel._fd_to_key:
                if fd not in sel._proc.fds:
                    w.fail('stale_registration', 'closed_fd_registered',
                           'descriptor %d is registered with the selector but closed' % fd)
                    return
        w.select_hook = hook

        w.settle(4.0 if timeout_mode else 2.5, 600.0)
        w.select_hook = None
        if not threaded:
            scen.executor_check(w, h)
        # ---- final accounting ------------------------------------------------------------------
        if not w.failures and not w.hung:
            clients_done = all(c.finished() for c in clients)
            if not clients_done:
                stuck = [c.name for c in clients if not c.finished()]
                w.fail('connection_never_ended', 'client', 'connections %s were never closed by the proxy (idle timeout %s)'
                       % (stuck, flags.timeout))
        if not w.failures and not w.hung:
            for c in clients:
                c.st = None
            gc.collect()
            ex = h.ex if not threaded else None
            leaked = sorted(set(w.main_proc.fds) - baseline)
            if leaked:
                w.fail('descriptor_leak', ','.join(sorted({w.main_proc.fds[f].label.split(':')[0].rstrip('0123456789') for f in leaked})),
                       '%d descriptors still open after %d connections: %s' %
                       (len(leaked), nconn, [(f, w.main_proc.fds[f].label) for f in leaked][:6]))
            elif threaded:
                alive = [t.name for t in h.threads if t.is_alive()]
                dead = [wk for wk in h.works if getattr(wk, 'selector', None) is not None and getattr(wk.selector, '_map', None) is not None]
                if alive:
                    w.fail('thread_left_running', 'threaded', 'handler threads still running after their connections ended: %r' % alive)
                elif dead:
                    w.fail('selector_leak', 'threaded', '%d handler(s) never closed their selector' % len(dead))
            elif ex.works:
                w.fail('registry_leak', 'works', 'executor still tracks works %r' % list(ex.works))
            elif ex.registered_events_by_work_ids:
                w.fail('registry_leak', 'registered_events', 'registered_events_by_work_ids = %r' % ex.registered_events_by_work_ids)
            elif ex.unfinished:
                w.fail('registry_leak', 'unfinished', '%d unfinished tasks' % len(ex.unfinished))
            else:
                sel = ex.selector
                keys = [fd for fd in sel._fd_to_key if not (remote and fd == ex.work_queue.fileno())]
                kfds = [fd for fd in sel.kernel_fds() if not (remote and fd == ex.work_queue.fileno())]
                if keys:
                    w.fail('selector_leak', 'python_map', 'selector still has keys for %r' % keys)
                elif kfds:
                    w.fail('selector_leak', 'kernel_set', 'kernel interest set still has %r' % kfds)
            if not w.failures and w.gc_closed_labels:
                w.fail('socket_left_to_gc', w.gc_closed_labels[0].split(':')[0],
                       'connected socket(s) %r were never closed by the proxy: their descriptors were released only when the '
                       'socket objects were garbage collected' % (w.gc_closed_labels[:4],))
            if not w.failures:
                files_after = scen.real_fds_under(static_dir)
                extra = list(files_after)
                for f in files_before:
                    if f in extra:
                        extra.remove(f)
                if extra:
                    w.fail('file_left_open', 'static', 'files of the static directory still open after the connections ended: %r'
                           % extra[:5])
            if not w.failures and w.closes_bad:
                w.fail('bad_close', w.closes_bad[0][2], 'close of a descriptor that was not open or belongs to someone else: %r' % w.closes_bad[:4])
            if not w.failures:
                for o in origins:
                    for oc in o.conns:
                        if oc.st is not None and oc.st.peer is not None and not oc.st.peer.closed:
                            w.fail('upstream_socket_open', o.name, 'proxy-side socket to %s is still open' % o.name)
                            break
        if w.stats.get('gc_close', 0):
            w.probe('gc_closed_socket')
        if any(pr.reuse_count for pr in w.procs.values()):
            w.probe('fd_reused')
        res.nontrivial = aborted or up_kind != 'serve' or faults
        res.features = g.features
        res.states = states
        res.scenario = {'nconn': nconn, 'same': same, 'overlap': overlap, 'first': first, 'remote': remote,
                        'timeout_mode': timeout_mode, 'up_kind': up_kind, 'opts': opts, 'faults': dict(w.fault_kinds)}
        return scen.end_run(w, h, res, shared_check=True)
