"""C01  Relayed byte streams arrive exactly once, in order, unmodified."""
from typing import Any, Dict, FrozenSet, List

from . import Gen, Result

ID = 'C01'
TITLE = 'Relayed byte streams arrive exactly once, in order, unmodified'
RULE = ('one run = one seeded scenario (CONNECT tunnel carrying byte strings both ways, or a '
        'keep-alive HTTP exchange with 1-4 generated responses in drawn framing) executed by the real '
        'executor over the in-memory kernel with drawn socket capacities, proxy buffer knobs, peer '
        'write/read schedules and injected short writes / EAGAIN; a run is non-trivial when at least '
        'one proxy send() was short or hit EAGAIN and at least one payload byte was relayed; distinct '
        '= distinct event-log digests among non-trivial runs')
STATE_MEASURE = 'not measured for this property'
PROBES = ['origin_writes_before_reading', 'request_connection_close', 'bulk', 'tunnel', 'http', 'threaded', 'tunnel_class', 'partial_flush_tail', 'both_directions_inflight']
COMPONENTS = {
    'real': ['proxy/core/work/threadless.py', 'proxy/core/work/fd/*.py', 'proxy/core/work/threaded.py',
             'proxy/http/handler.py', 'proxy/http/proxy/server.py', 'proxy/core/base/tcp_server.py',
             'proxy/core/base/tcp_tunnel.py', 'proxy/core/connection/*.py', 'proxy/http/parser/*',
             'proxy/common/flag.py', 'proxy/common/plugins.py'],
    'stub': ['kernel (sockets, epoll, fd table, clock, scheduler, DNS)', 'client and origin peers (scripted actors)'],
}
ASSUMPTIONS = [
    'pre-emption only at kernel calls; Python code between two calls is atomic',
    'no loss of data already accepted by the kernel is modelled',
    'origins send well-formed responses; aborts belong to C07/C10',
]
TIERS = {
    'quick': {'runs': 8000, 'budget_s': 40, 'max_body': 100000, 'max_tunnel': 300000, 'max_units': 300},
    'thorough': {'runs': 600000, 'budget_s': 900, 'watchdog_s': 600, 'max_body': 1 << 20, 'max_tunnel': 2 << 20, 'max_units': 4000},
}


def run_one(tape: Any, cfg: Dict[str, Any], forbid: FrozenSet[str] = frozenset()) -> Result:
    from ..actors import Origin, Peer
    from ..harness import L1, L3, make_flags
    from ..httpgen import gen_response, h11_parse_responses
    from ..kernel import World
    from .. import scen

    g = Gen(tape, forbid)
    res = Result()
    mode = ['tunnel', 'http', 'tunnel_class'][tape.weighted([4, 4, 1], 'mode')]
    threaded = mode != 'tunnel_class' and g.feature('threaded', 0.15)
    with World(tape, step_cap=1000000) as w:
        scen.sched_swarm(w, tape)
        w.dns['up.example'] = ['10.0.0.1']
        port = 443 if mode != 'http' else 80
        # ---- workload ------------------------------------------------
        if mode == 'http':
            nresp = 1 + tape.draw(4, 'nresp')
            resps: List[bytes] = []
            metas = []
            for i in range(nresp):
                last = i == nresp - 1
                r, m = gen_response(tape, g, cfg['max_body'], tag=b'r%d' % i, allow_close=last)
                resps.append(r)
                metas.append(m)
            total_b = sum(len(r) for r in resps)
            total_a = 0
            A = b''
            B = b''.join(resps)
        else:
            A = scen.body_bytes(tape, scen.size(tape, 400, cfg['max_tunnel'], 'A'), 'A')
            B = scen.body_bytes(tape, scen.size(tape, 400, cfg['max_tunnel'], 'B'), 'B')
            total_a, total_b = len(A), len(B)
        floor = scen.unit_floor(max(total_a, total_b), cfg['max_units'])
        caps = [scen.pick_cap(tape, floor, 'cap%d' % i) for i in range(4)]
        opts = scen.proxy_opts(tape, floor)
        # archetype "bulk": default knobs, large socket buffers, a transfer several times their size -- the regime of
        # large partial writes (tens of KiB accepted out of a 64 KiB slice), which independent small draws almost never meet
        bulk = mode != 'tunnel_class' and g.feature('bulk', 0.12)
        if bulk:
            caps = [65536, 65536, 65536, 65536]
            opts = {}
            w.probe('bulk')
            if mode == 'http':
                big = (b'%05d:' % 7) * (cfg['max_tunnel'] // 6)
                resps = [b'HTTP/1.1 200 OK\r\nContent-Length: %d\r\n\r\n' % len(big) + big]
                metas = [{'framing': 'length'}]
                nresp = 1
                B = resps[0]
                total_b = len(B)
            else:
                A = scen.body_bytes(tape, cfg['max_tunnel'] // 2 + tape.draw(cfg['max_tunnel'] // 2, 'bulkA'), 'A')
                B = scen.body_bytes(tape, cfg['max_tunnel'] // 2 + tape.draw(cfg['max_tunnel'] // 2, 'bulkB'), 'B')
                total_a, total_b = len(A), len(B)
        if mode == 'tunnel_class' and opts.get('client_recvbuf_size', 1 << 20) < 128:
            # the concrete tunnel class (mirroring examples/https_connect_tunnel.py) documents
            # that it expects the whole CONNECT request in its first read
            opts['client_recvbuf_size'] = 128
        if mode == 'tunnel_class':
            caps[2] = max(caps[2], 128)
        maxchunk = max(floor, [1 << 16, 4096, 256, 16, 3][tape.draw(5, 'peerchunk')])
        if bulk:
            maxchunk = 1 << 16      # peers move whole buffers; the interesting part is what the proxy's sends return
        faults = scen.setup_faults(w, tape, {'send': ['short', 'eagain']}, budget=400)
        interim_gap = mode == 'http' and tape.coin(0.5, 'interim-gap')
        # ---- system under test ------------------------------------------
        if mode == 'tunnel_class':
            from ..tunnelclass import tunnel_flags
            flags = tunnel_flags(**opts)
            w.probe('tunnel_class')
        else:
            flags = make_flags(threadless=not threaded, threaded=threaded, local_executor=1,
                               timeout=3600, **opts)
        h: Any = L3(w, flags) if threaded else L1(w, flags)
        if threaded:
            w.probe('threaded')
        w.probe('tunnel' if mode != 'http' else 'http')

        # ---- peers -----------------------------------------------------------
        state: Dict[str, Any] = {'ack_end': -1, 'checked': 0, 'ochecked': 0}
        origin_conns: List[Any] = []

        def origin_script(idx: int) -> List[Any]:
            if mode == 'http':
                def responder(peer: Any, info: Dict[str, Any]) -> List[Any]:
                    i = peer.served - 1
                    if i >= len(resps):
                        return []
                    ops: List[Any] = [('send', resps[i], 'dribble', maxchunk)]
                    if interim_gap and metas[i].get('interim'):
                        # the interim responses go out first, the final one a moment later (its own read at the proxy)
                        pos = 0
                        for _ in range(metas[i]['interim']):
                            pos = resps[i].index(b'\r\n\r\n', pos) + 4
                        ops = [('send', resps[i][:pos], 'dribble', maxchunk), ('sleep', 0.05),
                               ('send', resps[i][pos:], 'dribble', maxchunk)]
                    if metas[i]['framing'] == 'close':
                        ops.append(('close',))
                    return ops
                return [('serve', responder, nresp)]
            if writes_first:
                return [('send', B, 'dribble', maxchunk), ('resume_read',)]
            return [('send', B, 'dribble', maxchunk)]

        # a plain blocking server: it does not read what the client sends until it has written all it has to say
        writes_first = mode != 'http' and tape.coin(0.2, 'origin-writes-first')
        if writes_first:
            w.probe('origin_writes_before_reading')
        org = Origin(w, '10.0.0.1', port, origin_script, name='up', cap_in=caps[0], cap_out=caps[1],
                     read_mode='eager' if bulk else 'chunky', reading=not writes_first)
        org.remote.faultable = faults      # type: ignore[attr-defined]

        def origin_tx() -> bytes:
            return bytes(org.conns[0].tx) if org.conns else b''

        def check_client(peer: Any) -> None:
            rx = peer.rx
            if mode == 'http':
                off = 0
            else:
                if state['ack_end'] < 0:
                    i = rx.find(b'\r\n\r\n')
                    if i < 0:
                        return
                    state['ack_end'] = i + 4
                off = state['ack_end']
            got = len(rx) - off
            c = state['checked']
            if mode != 'http' and 0 < len(cl.tx) - state.get('req_len', 0) < total_a and got < total_b:
                w.stats['probe:both_directions_inflight'] = 1
            if got <= c:
                return
            otx = origin_tx()
            if got > len(otx) or rx[off + c:off + got] != otx[c:got]:
                if not w.failures:
                    w.fail('corrupt_to_client', 'client_rx_not_prefix_of_upstream_tx',
                           'client received bytes the upstream never sent in that position '
                           '(offset %d, got %r..., upstream sent %d bytes)' % (c, bytes(rx[off + c:off + c + 24]), len(otx)))
            state['checked'] = got

        def check_origin(peer: Any) -> None:
            if mode == 'http':
                return
            c = state['ochecked']
            rx = peer.rx
            ctx = cl.tx
            # client tx starts with the CONNECT request
            base = state.get('req_len', 0)
            if len(rx) > len(ctx) - base or rx[c:] != ctx[base + c:base + len(rx)]:
                if not w.failures:
                    w.fail('corrupt_to_upstream', 'upstream_rx_not_prefix_of_client_tx',
                           'upstream received bytes the client never sent in that position (offset %d)' % c)
            state['ochecked'] = len(rx)

        org.on_rx = check_origin
        script: List[Any] = [('connect',)]
        if mode == 'http':
            done = 0
            for i in range(nresp):
                # what the request says about the connection must not change what is relayed: the last one may ask for
                # the connection to be closed afterwards (the origin honours that or not), any may carry keep-alive / Expect
                extra = [b'', b'', b'Connection: keep-alive\r\n', b'Expect: 100-continue\r\n'][tape.draw(4, 'reqhdr')]
                if i == nresp - 1 and tape.coin(0.3, 'req-close'):
                    extra = b'Connection: close\r\n'
                    w.probe('request_connection_close')
                req = (b'GET http://up.example/r%d HTTP/1.1\r\nHost: up.example\r\n' % i) + extra + b'\r\n'
                script.append(('send', req, 'burst'))
                done += len(resps[i])
                script.append(('wait_rx', (lambda n: (lambda p: len(p.rx) >= n))(done)))
        else:
            req = b'CONNECT up.example:443 HTTP/1.1\r\nHost: up.example:443\r\n\r\n'
            state['req_len'] = len(req)
            rmode = ['burst', 'dribble'][tape.draw(2, 'reqmode')]
            script.append(('send', req, 'burst' if mode == 'tunnel_class' else rmode, 7))
            script.append(('wait_rx', lambda p: b'\r\n\r\n' in p.rx))
            script.append(('send', A, 'dribble', maxchunk))
        cl = Peer(w, 'client', script, read_mode='eager' if bulk else 'chunky')
        cl.on_rx = check_client
        cl.connect_fn = h.connector(cap_to_proxy=caps[2], cap_to_client=caps[3], faultable=faults)

        # ---- run ---------------------------------------------------------------
        quiet = w.settle(1.0, 600.0)
        scen.executor_check(w, h) if not threaded else None

        # ---- history checks -------------------------------------------------------
        if not w.failures and not w.hung:
            rx = bytes(cl.rx)
            if mode == 'http':
                if rx != B:
                    kind = 'missing_to_client' if B.startswith(rx) else 'wrong_to_client'
                    w.fail(kind, 'http', 'client got %d of %d bytes (eof=%s reset=%s); first responses framing=%s'
                           % (len(rx), len(B), cl.saw_eof, cl.saw_reset, [m['framing'] for m in metas]))
                if metas[-1]['framing'] == 'close' and not w.failures and not (cl.saw_eof or cl.saw_reset):
                    w.fail('no_eof_after_close_delimited', 'http', 'upstream closed but client never saw end-of-stream')
            else:
                ae = state['ack_end']
                if ae < 0:
                    w.fail('no_ack', 'tunnel', 'client never received a complete tunnel acknowledgement: %r' % rx[:80])
                else:
                    p = h11_parse_responses(rx[:ae], False, [b'CONNECT'])
                    if p['error'] or not p['responses'] or p['responses'][0]['status'] != 200 or \
                            len(p['responses']) != 1:
                        w.fail('bad_ack', 'tunnel', 'acknowledgement is not one 200 response: %r (%s)' % (rx[:ae], p['error']))
                    elif rx[ae:] != B:
                        kind = 'missing_to_client' if B.startswith(rx[ae:]) else 'wrong_to_client'
                        w.fail(kind, 'tunnel', 'client got %d of %d tunnel bytes' % (len(rx) - ae, len(B)))
                    orx = bytes(org.conns[0].rx) if org.conns else b''
                    if not w.failures and orx != A:
                        kind = 'missing_to_upstream' if A.startswith(orx) else 'wrong_to_upstream'
                        w.fail(kind, 'tunnel', 'upstream got %d of %d tunnel bytes' % (len(orx), len(A)))
        if w.stats.get('short_write', 0) and w.stats.get('eagain_send', 0):
            w.probe('partial_flush_tail')
        res.nontrivial = bool((w.stats.get('short_write', 0) or w.stats.get('eagain_send', 0)
                               or w.stats.get('fault:short', 0) or w.stats.get('fault:eagain', 0))
                              and (total_a or total_b))
        res.features = g.features
        res.scenario = {'mode': mode, 'threaded': threaded, 'A': len(A), 'B': len(B), 'caps': caps,
                        'opts': opts, 'maxchunk': maxchunk, 'faults': dict(w.fault_kinds),
                        'fault_p': w.fault_p, 'preempt_p': w.preempt_p,
                        'framings': [m['framing'] for m in metas] if mode == 'http' else None}
        return scen.end_run(w, h, res)
