"""C09  Plugins run in configured order with the documented chaining semantics."""
import base64
from typing import Any, Dict, FrozenSet, List, Optional, Set, Tuple

from . import Gen, Result

ID = 'C09'
TITLE = 'Plugins run in configured order with the documented chaining semantics'
RULE = ('one run = 1-4 generated HttpProxyBasePlugin subclasses whose hooks (before_upstream_connection, '
        'handle_client_request, handle_upstream_chunk, resolve_dns, on_access_log) independently pass, modify (add a '
        'marker header / context key), drop (return None), reject (HttpRequestRejected with drawn status, reason, '
        'headers, body) or raise HttpProtocolException, with or without --basic-auth; 1-2 client connections '
        '(absolute-form request with 0-2 follow-ups, or CONNECT) each ended in a drawn way (normal, client close / '
        'reset after the request or in the middle of it, upstream close / reset mid-response, upstream refusing); a '
        'reference interpreter of the documented semantics computes the expected hook call log (with the marker '
        'headers each call must see), the expected connect target, origin request and client response; '
        'non-trivial = some hook does something other than pass, or the connection does not end normally; '
        'distinct = distinct event-log digests')
PROBES = ['unauthenticated_connection', 'n1', 'n2', 'n3', 'n4', 'auth', 'modify', 'drop_before_connect', 'drop_request', 'reject_before_connect',
          'reject_request', 'raise', 'dns_override', 'chunk_drop', 'access_log_stop', 'connect_method', 'followup',
          'client_abort', 'client_abort_mid_request', 'upstream_abort', 'upstream_refused', 'lifecycle_checked',
          'followup_drop']
COMPONENTS = {
    'real': ['proxy/http/proxy/server.py (hook chains, lifecycle)', 'proxy/http/proxy/plugin.py', 'proxy/http/proxy/auth.py',
             'proxy/common/plugins.py', 'proxy/common/flag.py (plugin order)', 'proxy/http/handler.py',
             'proxy/http/exception/*', 'proxy/core/work/threadless.py', 'proxy/core/connection/*.py'],
    'stub': ['kernel', 'peers', 'generated table-driven plugins (sim/plugins.py) deriving from the real base class'],
}
ASSUMPTIONS = ['documented semantics = README "Plugin Ordering" + the docstrings of HttpProxyBasePlugin',
               '"without contacting upstream": no outbound connection attempt for a rejection raised in '
               'before_upstream_connection; no request byte forwarded for a rejection raised in handle_client_request '
               '(which by the documented hook order runs after the connection exists)',
               'whether handle_client_request is still invoked after before_upstream_connection returned None is not '
               'fixed by the documentation and is not checked',
               'lifecycle callbacks are expected for a connection exactly when its first request was completely received; '
               'for aborted connections the simulator decides that by whether the proxy had read the whole request before '
               'the abort (plugin instances exist)']
TIERS = {
    'quick': {'runs': 7000, 'budget_s': 40},
    'thorough': {'runs': 700000, 'budget_s': 900},
}
STATE_MEASURE = 'distinct (plugin count, disruptive action placement, request kind, ending) tuples'
BUC, HCR, HUC, DNS, LOG = ('before_upstream_connection', 'handle_client_request', 'handle_upstream_chunk',
                           'resolve_dns', 'on_access_log')
REJECTS = [(418, b"I'm a teapot", {b'X-Rej': b'1'}, b'short and stout'), (403, b'Forbidden', None, None),
           (451, b'Unavailable', {b'X-A': b'b', b'X-C': b'd'}, b'x' * 300), (302, b'Found', {b'Location': b'http://e.example/'}, None),
           (200, b'OK', {b'X-Cache': b'hit'}, b'cached-body')]


def run_one(tape: Any, cfg: Dict[str, Any], forbid: FrozenSet[str] = frozenset()) -> Result:
    from ..actors import Origin, Peer
    from ..harness import L1, make_flags
    from ..httpgen import h11_parse_requests, h11_parse_responses
    from ..kernel import World
    from ..plugins import make_proxy_plugin
    from .. import scen
    from .c04 import count_responses

    g = Gen(tape, forbid)
    res = Result()
    with World(tape) as w:
        scen.sched_swarm(w, tape)
        w.dns['up.example'] = ['10.0.0.1']
        N = 1 + tape.weighted([2, 3, 3, 2], 'nplug')
        w.probe('n%d' % N)
        auth = g.feature('auth', 0.25)
        if auth:
            w.probe('auth')
        # ---- tables: mostly pass/modify, 0-2 disruptive actions placed anywhere -------------------------------
        tables: List[Dict[str, Any]] = [{} for _ in range(N)]
        for t in tables:
            for hk in (BUC, HCR):
                if tape.coin(0.3, 'modify'):
                    t[hk] = 'modify' if tape.coin(0.5, 'inplace') else 'replace'
            if tape.coin(0.25, 'logmod'):
                t[LOG] = 'modify'
        ndis = tape.weighted([3, 4, 2], 'ndisruptive')
        placed = []
        for _ in range(ndis):
            i = tape.draw(N, 'dis-plugin')
            kind = ['drop_buc', 'reject_buc', 'raise_buc', 'drop_hcr', 'reject_hcr', 'raise_hcr', 'dns', 'chunk_drop',
                    'log_none', 'drop_hcr_nth', 'reject_hcr_nth'][tape.weighted([2, 2, 1, 2, 2, 1, 2, 1, 2, 2, 1], 'dis-kind')]
            rej = ('reject',) + REJECTS[tape.draw(len(REJECTS), 'rej')]
            nth = 2 + tape.draw(2, 'nth')
            if kind == 'drop_buc':
                tables[i][BUC] = 'drop'
            elif kind == 'reject_buc':
                tables[i][BUC] = rej
            elif kind == 'raise_buc':
                tables[i][BUC] = 'raise'
            elif kind == 'drop_hcr':
                tables[i][HCR] = 'drop'
            elif kind == 'reject_hcr':
                tables[i][HCR] = rej
            elif kind == 'raise_hcr':
                tables[i][HCR] = 'raise'
            elif kind == 'dns':
                # a plugin answers resolve_dns with an address, or only with a source address to connect from: either ends
                # the chain (plugins after it are not asked)
                tables[i][DNS] = ('ip', '10.0.0.9') if tape.coin(0.6, 'dns-kind') else ('src', ('10.0.0.77', 0))
            elif kind == 'chunk_drop':
                tables[i][HUC] = 'drop'
            elif kind == 'log_none':
                tables[i][LOG] = 'none'
            elif kind == 'drop_hcr_nth':
                tables[i][HCR] = ('nth', nth, 'drop')
            else:
                tables[i][HCR] = ('nth', nth, rej)
            placed.append((i, kind))
        plog: List[Any] = []
        plugins = [make_proxy_plugin(i + 1, tables[i], plog) for i in range(N)]
        opts: Dict[str, Any] = {}
        if auth:
            opts['basic_auth'] = 'user:pass'
        flags = make_flags(threadless=True, local_executor=1, timeout=3600, plugins=plugins, **opts)
        h = L1(w, flags)
        # ---- connections ------------------------------------------------------------------------------------------
        nconn = 1 + tape.weighted([3, 1], 'nconn')
        up_kind = ['serve', 'serve', 'serve', 'close_mid', 'reset_mid', 'refuse'][tape.draw(6, 'upkind')]
        if up_kind in ('close_mid', 'reset_mid'):
            w.probe('upstream_abort')
        if up_kind == 'refuse':
            w.probe('upstream_refused')
        RESP = b'HTTP/1.1 200 OK\r\nContent-Length: 6\r\nX-Origin: %s\r\n\r\norigin'
        chunk_dropper = next((i for i in range(N) if tables[i].get(HUC) == 'drop'), None)

        def mk_origin(name: bytes, ip: str, port: int, tunnel: bool) -> Any:
            def script(idx: int) -> List[Any]:
                if tunnel:
                    return [('wait_rx', lambda p: len(p.rx) >= 4), ('send', b'pong', 'burst'), ('wait_eof',), ('close',)]
                if up_kind in ('close_mid', 'reset_mid'):
                    return [('wait_rx', lambda p: b'\r\n\r\n' in p.rx),
                            ('send', b'HTTP/1.1 200 OK\r\nContent-Length: 50\r\n\r\nhalf', 'burst'),
                            ('close',) if up_kind == 'close_mid' else ('reset',)]
                return [('serve', lambda p, info: [('send', RESP % name, 'burst')], 10), ('wait_eof',), ('close',)]
            return Origin(w, ip, port, script, name='%s:%d' % (name.decode(), port),
                          mode='refuse' if up_kind == 'refuse' else 'accept')
        conns: List[Dict[str, Any]] = []
        authline = b'Proxy-Authorization: Basic ' + base64.b64encode(b'user:pass') + b'\r\n' if auth else b''
        nontrivial = bool(placed) or up_kind != 'serve'
        for k in range(nconn):
            is_connect = g.feature('connect_method', 0.2)
            ending = ['normal', 'normal', 'normal', 'client_close', 'client_reset', 'mid_request'][tape.draw(6, 'ending')]
            nfollow = 0 if is_connect else tape.weighted([3, 2, 1], 'nfollow')
            if ending != 'normal':
                nontrivial = True
                nfollow = 0
            port = (4430 if is_connect else 8000) + k
            cn: Dict[str, Any] = {'k': k, 'connect': is_connect, 'ending': ending, 'nfollow': nfollow, 'port': port}
            cn['origins'] = {'10.0.0.1': mk_origin(b'main', '10.0.0.1', port, is_connect),
                             '10.0.0.9': mk_origin(b'alt', '10.0.0.9', port, is_connect)}
            script: List[Any] = [('sleep', 0.4 * k), ('connect',)]
            hp = b'up.example:%d' % port
            if is_connect:
                w.probe('connect_method')
                req = b'CONNECT ' + hp + b' HTTP/1.1\r\nHost: ' + hp + b'\r\n' + authline + b'\r\n'
            else:
                body = b'B' * tape.draw(30, 'bodylen') if tape.coin(0.4, 'post') else b''
                req = ((b'POST' if body else b'GET') + b' http://' + hp + b'/r0 HTTP/1.1\r\nHost: ' + hp + b'\r\nX-Keep: yes\r\n'
                       + authline + (b'Content-Length: %d\r\n' % len(body) if body else b'') + b'\r\n' + body)
            # with authentication on, some connections come without credentials: the authentication plugin, which runs ahead of
            # every user plugin, rejects them with its 407 and no request-handling hook of a user plugin runs
            unauth = auth and ending == 'normal' and g.feature('unauthenticated_connection', 0.3)
            if unauth:
                w.probe('unauthenticated_connection')
                req = req.replace(authline, b'')
                nfollow = 0
                cn['nfollow'] = 0
                nontrivial = True
            cn['req'] = req
            exp = expect_first(tables, N, is_connect)
            if unauth:
                from proxy.http.responses import PROXY_AUTH_FAILED_RESPONSE_PKT
                a407 = h11_parse_responses(bytes(PROXY_AUTH_FAILED_RESPONSE_PKT), True, [b'GET'])['responses'][0]
                exp = {'connect': False, 'forward': False, 'raised': False, 'hcr_checked': True, 'counts': {}, 'buc_calls': [],
                       'hcr_calls': [], 'dns_calls': [], 'ip': '10.0.0.1', 'stage': 'auth', 'marks': set(),
                       'reject': (a407['status'], a407.get('reason'), None, a407['body'])}
            cn['exp'] = exp
            cn['fexp'] = []
            if ending == 'mid_request':
                w.probe('client_abort_mid_request')
                head_len = req.index(b'\r\n\r\n') + 3
                cut = 1 + tape.draw(head_len - 1, 'midcut')
                script += [('send', req[:cut], 'burst'), ('sleep', [0.0, 0.05][tape.draw(2, 'abortwait')]),
                           ('close',) if tape.coin(0.5, 'midkind') else ('reset',)]
            elif ending in ('client_close', 'client_reset'):
                w.probe('client_abort')
                script += [('send', req, 'burst'), ('wait_drain',), ('sleep', [0.0, 0.0, 0.03, 0.3][tape.draw(4, 'abortwait')]),
                           ('close',) if ending == 'client_close' else ('reset',)]
            else:
                script.append(('send', req, 'burst'))
                answered = exp['forward'] and up_kind == 'serve' and chunk_dropper is None
                if is_connect:
                    if exp['forward'] and up_kind != 'refuse':
                        script += [('wait_rx', lambda p: b'\r\n\r\n' in p.rx), ('send', b'ping', 'burst')]
                        script += [('wait_rx', lambda p: p.rx.endswith(b'pong'))] if chunk_dropper is None and up_kind == 'serve' else [('sleep', 0.3)]
                    else:
                        script += [('sleep', 0.3)]
                elif answered:
                    script.append(('wait_rx', lambda p: count_responses(bytes(p.rx)) >= 1))
                    alive = True
                    nans = 1
                    for j in range(nfollow):
                        if not alive:
                            break
                        fe = expect_followup(tables, N, exp['counts'])
                        cn['fexp'].append(fe)
                        r2 = b'GET http://' + hp + b'/r%d HTTP/1.1\r\nHost: ' % (j + 1) + hp + b'\r\nX-Keep: yes\r\n\r\n'
                        script.append(('send', r2, 'burst'))
                        if fe['forward']:
                            nans += 1
                            script.append(('wait_rx', (lambda n: (lambda p: count_responses(bytes(p.rx)) >= n))(nans)))
                        else:
                            if fe['reject'] is not None or fe['raised']:
                                alive = False
                            else:
                                w.probe('followup_drop')
                            script.append(('sleep', 0.3))
                    if cn['fexp']:
                        w.probe('followup')
                else:
                    script += [('sleep', 0.4)]
                script += [('sleep', 0.1), ('close',)]
            c = Peer(w, 'c%d' % k, script, read_mode='chunky')
            c.connect_fn = h.connector()
            cn['client'] = c
            conns.append(cn)
        w.settle(1.5, 200.0)
        scen.executor_check(w, h)

        # ---- oracle -------------------------------------------------------------------------------------------------
        if not w.failures and not w.hung:
            by_ord: Dict[int, List[Any]] = {}
            for e in plog:
                # uid = <executor id>-<arrival ordinal>-<descriptor>; connections arrive 0.4 s apart, in order
                by_ord.setdefault(int(e[2].split('-')[1]), []).append(e)
            for cn in conns:
                mine = by_ord.pop(cn['k'], [])
                sig = '%s:%s' % ('connect' if cn['connect'] else 'http', cn['ending'])
                if cn['ending'] == 'mid_request':
                    if mine:
                        w.fail('hooks_for_incomplete_request', sig, 'plugin activity for a connection whose first request was never '
                               'completely received: %r' % (mine[:4],))
                        break
                    continue
                if not mine:
                    if cn['ending'] == 'normal' or cn['ending'] == 'client_close':
                        w.fail('hooks_not_called', sig, 'connection %d: the whole first request was delivered but no plugin was '
                               'instantiated' % cn['k'])
                        break
                    continue        # reset right after the request: the kernel may have discarded it
                w.probe('lifecycle_checked')
                err = check_connection(cn, mine, tables, N, up_kind, chunk_dropper, list(w.connect_log),
                                       h11_parse_requests, h11_parse_responses)
                if err:
                    w.fail(err[0], sig + ':' + err[1], err[2])
                    break
            if not w.failures and by_ord:
                w.fail('hooks_for_unknown_connection', 'c09', 'plugin activity not attributable to any connection: %r' % (list(by_ord.items())[:2],))
        for i, kind in placed:
            w.probe({'drop_buc': 'drop_before_connect', 'reject_buc': 'reject_before_connect', 'raise_buc': 'raise',
                     'drop_hcr': 'drop_request', 'reject_hcr': 'reject_request', 'raise_hcr': 'raise', 'dns': 'dns_override',
                     'chunk_drop': 'chunk_drop', 'log_none': 'access_log_stop', 'drop_hcr_nth': 'drop_request',
                     'reject_hcr_nth': 'reject_request'}[kind])
        if any(t.get(BUC) in ('modify', 'replace') or t.get(HCR) in ('modify', 'replace') for t in tables):
            w.probe('modify')
        res.nontrivial = nontrivial
        res.features = g.features
        res.states = {hash((N, tuple(placed), tuple((cn['connect'], cn['ending'], cn['nfollow']) for cn in conns), up_kind)) & 0xffffffff}
        res.scenario = {'N': N, 'auth': auth, 'tables': [{k: (v if isinstance(v, str) else repr(v)[:80]) for k, v in t.items()} for t in tables],
                        'conns': [{'connect': cn['connect'], 'ending': cn['ending'], 'nfollow': cn['nfollow']} for cn in conns],
                        'up_kind': up_kind}
        return scen.end_run(w, h, res)


# ---------------------------------------------------------------------------------------------------------------------
# reference interpreter of the documented chaining semantics
# ---------------------------------------------------------------------------------------------------------------------

def _act(table: Dict[str, Any], hook: str, n: int) -> Any:
    a = table.get(hook, 'pass')
    if isinstance(a, tuple) and a and a[0] == 'nth':
        return a[2] if n == a[1] else 'pass'
    return a


def _chain(tables: List[Dict[str, Any]], N: int, hook: str, counts: Dict[Tuple[int, str], int], marks: Set[bytes],
           suffix: bytes) -> Dict[str, Any]:
    """One pass down the chain.  `counts` holds, per (plugin, hook), how often that hook of that plugin instance has run on
    this connection: a plugin that an earlier one shields (drop / reject) does not see the call."""
    calls = []
    out: Dict[str, Any] = {'calls': calls, 'dropped': False, 'reject': None, 'raised': False}
    for i in range(N):
        counts[(i, hook)] = counts.get((i, hook), 0) + 1
        a = _act(tables[i], hook, counts[(i, hook)])
        calls.append((i + 1, hook, tuple(sorted(marks))))
        if a in ('modify', 'replace'):
            marks.add(b'x-mark-%d%s' % (i + 1, suffix))
        elif a == 'drop':
            out['dropped'] = True
            break
        elif a == 'raise':
            out['raised'] = True
            break
        elif isinstance(a, tuple) and a[0] == 'reject':
            out['reject'] = a[1:]
            break
    return out


def expect_first(tables: List[Dict[str, Any]], N: int, is_connect: bool) -> Dict[str, Any]:
    marks: Set[bytes] = set()
    counts: Dict[Tuple[int, str], int] = {}
    e: Dict[str, Any] = {'connect': True, 'forward': True, 'reject': None, 'raised': False, 'hcr_checked': True,
                         'counts': counts}
    b = _chain(tables, N, BUC, counts, marks, b'b')
    e['buc_calls'] = b['calls']
    e['hcr_calls'] = []
    e['dns_calls'] = []
    e['ip'] = '10.0.0.1'
    if b['reject'] is not None or b['raised']:
        e.update({'connect': False, 'forward': False, 'reject': b['reject'], 'raised': b['raised'], 'stage': 'buc'})
        e['marks'] = set(marks)
        return e
    if b['dropped']:
        e.update({'connect': False, 'forward': False, 'hcr_checked': False, 'stage': 'buc_drop'})
        e['marks'] = set(marks)
        return e
    for i in range(N):
        e['dns_calls'].append(i + 1)
        a = tables[i].get(DNS, 'pass')
        if isinstance(a, tuple) and a[0] == 'ip':
            e['ip'] = a[1]
            break
        if isinstance(a, tuple) and a[0] == 'src':
            break
    hc = _chain(tables, N, HCR, counts, marks, b'h')
    e['hcr_calls'] = hc['calls']
    if hc['reject'] is not None or hc['raised']:
        e.update({'forward': False, 'reject': hc['reject'], 'raised': hc['raised'], 'stage': 'hcr'})
    elif hc['dropped']:
        e.update({'forward': False, 'stage': 'hcr_drop'})
    e['marks'] = set(marks)
    return e


def expect_followup(tables: List[Dict[str, Any]], N: int, counts: Dict[Tuple[int, str], int]) -> Dict[str, Any]:
    marks: Set[bytes] = set()
    hc = _chain(tables, N, HCR, counts, marks, b'h')
    return {'hcr_calls': hc['calls'], 'forward': not (hc['dropped'] or hc['raised'] or hc['reject'] is not None),
            'reject': hc['reject'], 'raised': hc['raised'], 'marks': set(marks)}


def check_connection(cn: Dict[str, Any], mine: List[Any], tables: List[Dict[str, Any]], N: int, up_kind: str,
                     chunk_dropper: Optional[int], clog: List[Any], h11_parse_requests: Any,
                     h11_parse_responses: Any) -> Optional[Tuple[str, str, str]]:
    exp = cn['exp']
    c = cn['client']
    rx = bytes(c.rx)
    aborted = cn['ending'] != 'normal'
    stage = exp.get('stage', 'ok')
    inits = [e[0] for e in mine if e[1] == '__init__']
    if inits != list(range(1, N + 1)):
        return ('plugin_order', 'init', 'plugins instantiated as %r, configured order is 1..%d' % (inits, N))
    got_buc = [(e[0], e[1], e[3]) for e in mine if e[1] == BUC]
    got_hcr = [(e[0], e[1], e[3]) for e in mine if e[1] == HCR]
    got_dns = [e[0] for e in mine if e[1] == DNS]
    if got_buc != exp['buc_calls']:
        return ('wrong_chain', 'before_upstream_connection:' + stage,
                'before_upstream_connection calls (plugin, hook, marker headers seen): got %r expected %r' % (got_buc, exp['buc_calls']))
    refused = up_kind == 'refuse' and exp['connect']
    exp_hcr = [] if refused else list(exp['hcr_calls'])
    for fe in cn['fexp']:
        exp_hcr += fe['hcr_calls']
    if exp['hcr_checked']:
        if not aborted and up_kind == 'serve' and got_hcr != exp_hcr:
            return ('wrong_chain', 'handle_client_request:' + stage, 'handle_client_request calls: got %r expected %r' % (got_hcr, exp_hcr))
        if got_hcr != exp_hcr[:len(got_hcr)]:
            return ('wrong_chain', 'handle_client_request:' + stage, 'calls %r are not a prefix of the expected %r' % (got_hcr, exp_hcr))
    # ---- outbound connection -----------------------------------------------------------------------------------
    attempts = [x for x in clog if x[1] == cn['port']]
    if not exp['connect']:
        if attempts or got_dns:
            return ('contacted_upstream', stage, 'no upstream connection is due (%s) but resolve_dns calls %r, connect attempts %r'
                    % (stage, got_dns, attempts))
    else:
        if got_dns != exp['dns_calls']:
            return ('wrong_chain', 'resolve_dns', 'resolve_dns calls: got %r expected %r' % (got_dns, exp['dns_calls']))
        if len(attempts) != 1 or attempts[0][0] != exp['ip']:
            return ('wrong_upstream', 'dns_override' if exp['ip'] != '10.0.0.1' else 'default',
                    'expected exactly one connection to %s:%d, connect log has %r' % (exp['ip'], cn['port'], attempts))
    # ---- what the origins received ---------------------------------------------------------------------------------
    for ip, o in cn['origins'].items():
        orx = b''.join(bytes(x.rx) for x in o.conns)
        if ip != exp['ip'] or not exp['connect']:
            if o.conns:
                return ('wrong_upstream', 'origin', 'origin %s:%d was connected to' % (ip, cn['port']))
            continue
        if not exp['forward']:
            if orx:
                return ('forwarded_despite_' + ('drop' if exp['reject'] is None and not exp['raised'] else 'reject'), stage,
                        'request was dropped / rejected by a plugin (%s) but the origin received %r' % (stage, orx[:80]))
            continue
        if aborted or up_kind != 'serve':
            continue
        if cn['connect']:
            if orx != b'ping':
                return ('tunnel_payload', 'connect', 'origin received %r through the tunnel, client sent b"ping"' % orx[:40])
            continue
        pr = h11_parse_requests(orx)
        want = [exp['marks']] + [fe['marks'] for fe in cn['fexp'] if fe['forward']]
        want_paths = [b'/r0'] + [b'/r%d' % (j + 1) for j, fe in enumerate(cn['fexp']) if fe['forward']]
        got_paths = [r['target'] for r in pr['requests']]
        if not pr['error'] and len(got_paths) == len(want_paths) and got_paths != want_paths:
            return ('wrong_forwarding', 'paths', 'origin received requests for %r, the client sent (and the plugins let through) %r'
                    % (got_paths, want_paths))
        if pr['error'] or len(pr['requests']) != len(want):
            return ('wrong_forwarding', stage, 'origin got %d requests, expected %d (h11: %s): %r'
                    % (len(pr['requests']), len(want), pr['error'], orx[:200]))
        for j, (r, marks) in enumerate(zip(pr['requests'], want)):
            got = {n.lower() for n, v in r['headers'] if n.lower().startswith(b'x-mark-')}
            if got != marks:
                return ('wrong_dataflow', 'first' if j == 0 else 'followup',
                        'request %d reached the origin with marker headers %r, the plugins that modified it added %r'
                        % (j, sorted(got), sorted(marks)))
            if (b'X-Keep', b'yes') not in r['headers']:
                return ('wrong_dataflow', 'header_lost', 'request %d lost its X-Keep header: %r' % (j, r['headers']))
    # ---- client transcript ------------------------------------------------------------------------------------------
    rejecting = exp['reject'] is not None          # a plugin's own response is framed like any response, also to CONNECT
    p = h11_parse_responses(rx, c.saw_eof or c.saw_reset, [b'CONNECT'] if cn['connect'] and not rejecting else [b'GET'] * 5)
    resp = [r for r in p['responses'] if not r.get('interim')]
    if not aborted:
        rej, raised, rstage = exp['reject'], exp['raised'], stage
        if refused and stage != 'buc':
            rej, raised = None, False           # the connect failure (502) comes first
        prior = 0
        if rej is None and not raised:
            for fe in cn['fexp']:
                if fe['reject'] is not None or fe['raised']:
                    rej, raised, rstage = fe['reject'], fe['raised'], 'followup'
                    break
                if fe['forward']:
                    prior += 1
            if rej is not None or raised:
                prior += 1      # the first request's response
        if raised or rej is not None:
            mineresp = resp[prior:]
            if rej is None:
                if mineresp:
                    return ('unexpected_response', rstage, 'plugin raised HttpProtocolException (no response of its own): client got %r' % rx[:120])
            else:
                st, reason, hdrs, body = rej
                if p['error'] or len(mineresp) != 1 or mineresp[0]['status'] != st or mineresp[0].get('reason') != reason \
                        or mineresp[0]['body'] != (body or b''):
                    return ('wrong_reject_response', rstage, 'rejecting plugin chose %r %r body %r; client got %r (h11: %s)'
                            % (st, reason, (body or b'')[:30], rx[:200], p['error']))
                have = {(n.lower(), v) for n, v in mineresp[0]['headers']}
                for n, v in (hdrs or {}).items():
                    if (n.lower(), v) not in have:
                        return ('wrong_reject_response', rstage, 'header %r: %r of the rejection missing: %r' % (n, v, mineresp[0]['headers']))
            if not (c.saw_eof or c.saw_reset):
                return ('not_closed_after_reject', rstage, 'connection still open after the plugin rejected the request')
        elif exp['forward'] and up_kind == 'serve' and not cn['connect']:
            nexp = 0 if chunk_dropper is not None else 1 + sum(1 for fe in cn['fexp'] if fe['forward'])
            name = b'alt' if exp['ip'] != '10.0.0.1' else b'main'
            if p['error'] or len(resp) != nexp or any(r['status'] != 200 or (b'x-origin', name) not in r['headers'] for r in resp):
                return ('wrong_client_response', 'chunk_drop' if chunk_dropper is not None else 'served',
                        'expected %d responses from origin %r, client got %r (h11: %s)' % (nexp, name, rx[:200], p['error']))
        if refused:
            if not resp or resp[0]['status'] != 502:
                return ('wrong_client_response', 'refused', 'upstream refused: expected 502, client got %r' % rx[:100])
    # ---- handle_upstream_chunk rounds ---------------------------------------------------------------------------------
    huc = [(e[0], e[3]) for e in mine if e[1] == HUC]
    last = N if chunk_dropper is None else chunk_dropper + 1
    pos = 0
    while pos < len(huc):
        rnd = huc[pos:pos + last]
        if [x[0] for x in rnd] != list(range(1, last + 1)) or len({x[1] for x in rnd}) != 1:
            return ('wrong_chain', 'handle_upstream_chunk', 'handle_upstream_chunk calls %r are not rounds of plugins 1..%d on the same chunk'
                    % (huc[:12], last))
        pos += last
    # ---- lifecycle: exactly once -------------------------------------------------------------------------------------------
    closes = [e[0] for e in mine if e[1] == 'on_upstream_connection_close']
    if closes != list(range(1, N + 1)):
        return ('lifecycle', 'close_hook:%s:%s' % (stage, up_kind), 'on_upstream_connection_close ran for plugins %r, expected each of 1..%d '
                'exactly once, in order' % (closes, N))
    stop = next((i for i in range(N) if tables[i].get(LOG) == 'none'), None)
    exp_log = []
    marks: List[str] = []
    for i in range(N if stop is None else stop + 1):
        exp_log.append((i + 1, tuple(sorted(marks))))
        if tables[i].get(LOG) == 'modify':
            marks.append('mark%d' % (i + 1))
    got_log = [(e[0], e[3]) for e in mine if e[1] == LOG]
    if got_log != exp_log:
        return ('lifecycle', 'access_log:%s:%s' % (stage, up_kind), 'on_access_log calls (plugin, context marks seen): got %r expected %r'
                % (got_log, exp_log))
    idx_life = [n for n, e in enumerate(mine) if e[1] in (LOG, 'on_upstream_connection_close')]
    idx_req = [n for n, e in enumerate(mine) if e[1] in (BUC, HCR, HUC, DNS)]
    if idx_life and idx_req and min(idx_life) < max(idx_req):
        return ('lifecycle', 'order', 'a lifecycle callback ran before the last request hook')
    return None
