"""C14  The proxy connects to exactly the host and port the request-target names."""
import ipaddress
import re
from typing import Any, Dict, FrozenSet, List, Optional, Tuple
from urllib.parse import urlsplit

from . import Gen, Result

ID = 'C14'
TITLE = 'The proxy connects to exactly the host and port the request-target names'
RULE = ('one run = one request whose target is generated from the URI grammar (absolute-form http, CONNECT '
        'authority-form, origin-form; hosts: registered names in several casings, an IDNA A-label and its raw UTF-8 '
        'spelling, IPv4 literals, bracketed IPv6 literals in several spellings; port absent / explicit 0..65535; '
        'optional userinfo; paths and queries with reserved characters) or a damaged variant of one, delivered in a '
        'drawn segmentation to the real executor; the simulated kernel\'s getaddrinfo/connect log is the '
        'observation point, a scripted origin listens only at the address the reference parser '
        '(urllib.parse.urlsplit + ipaddress, cross-checked against the generator\'s own components) derives; '
        'non-trivial = the target has an IPv6 literal, userinfo, an explicit port, a non-ASCII host, reserved '
        'characters in the path, or is damaged; distinct = distinct event-log digests')
PROBES = ['mutated_target', 'absolute', 'connect', 'origin_form', 'regname', 'idna', 'utf8_host', 'ipv4', 'ipv6', 'userinfo',
          'explicit_port', 'port_zero', 'reserved_path', 'damaged', 'segmented', 'connected_right', 'rejected_damaged']
COMPONENTS = {
    'real': ['proxy/http/url.py', 'proxy/http/parser/parser.py', 'proxy/http/proxy/server.py (connect_upstream)',
             'proxy/core/connection/server.py', 'proxy/common/utils.py (new_socket_connection)', 'proxy/http/handler.py',
             'proxy/http/server/web.py (origin-form)', 'proxy/core/work/threadless.py'],
    'stub': ['kernel: getaddrinfo (rejects what glibc rejects, IDNA like CPython) and connect log', 'peers',
             'catch-all web route recording request.path for origin-form targets'],
}
ASSUMPTIONS = ['reference = urllib.parse.urlsplit for the split, ipaddress for literals; default port 80, 443 for CONNECT',
               'a target naming port 0 is valid by the grammar but unconnectable: the proxy may fail it (4xx/5xx) but '
               'must not connect anywhere else',
               'for a damaged target the proxy must not establish any outbound connection and must answer with an error '
               'status or close; which 4xx/5xx it chooses is not constrained']
TIERS = {
    'quick': {'runs': 9000, 'budget_s': 40},
    'thorough': {'runs': 900000, 'budget_s': 900},
}
STATE_MEASURE = 'distinct (form, host kind, port kind, userinfo kind, path kind / damage kind) tuples'

NAMES = [(b'up.example', 'regname'), (b'UP.Example', 'regname'), (b'a-b.c-d.example', 'regname'), (b'example', 'regname'),
         (b'1.example', 'regname'), (b'xn--bcher-kva.example', 'idna'), ('bücher.example'.encode('utf-8'), 'utf8_host'),
         (b'localhost', 'regname')]
DNS = {'up.example': '10.0.2.1', 'a-b.c-d.example': '10.0.2.2', 'example': '10.0.2.3', '1.example': '10.0.2.4',
       'xn--bcher-kva.example': '10.0.2.5', 'localhost': '127.0.0.1'}
V4 = [b'10.0.3.1', b'192.168.1.254', b'127.0.0.1', b'1.2.3.4']
V6 = [b'::1', b'2001:db8::1', b'2001:DB8:0:0:0:0:0:1', b'::ffff:10.0.3.1', b'fe80::1:2:3:4', b'2001:db8:0:0:1::1',
      b'0:0:0:0:0:0:0:1']
PATHS = [b'', b'/', b'/a/b', b'/x?y=1&z=2', b'?q=1', b'/a;b=c', b'/a@b', b'/a:b/c:80', b'//double', b'/?', b'/%2F%40',
         b'/*', b'/a?b?c', b'/a?u=http://other.example:81/z', b'/~u/', b'/a?x=[::1]', b'/sp%20ace', b'?next=/home', b'?u=http://other.example/a@b']
USERINFO = [b'', b'', b'', b'user:pw@', b'user@', b'u:p:w@', b':pw@', b'user:@']
MUT_ALPHABET = [b':', b'/', b'@', b'[', b']', b'?', b'.', b'0', b'a', b'9']
DAMAGED_ABS = [b'http://', b'http:///x', b'http://up.example:abc/', b'http://up.example:99999/', b'http://up.example:-1/',
               b'http://[::1/', b'http://[::1]x/', b'http://up.example:80:80/', b'http://user@/', b'http://[gggg::1]/',
               b'http://up.example:8o/']
DAMAGED_CONNECT = [b':443', b'up.example:abc', b'up.example:99999', b'[::1', b'[::1]x:443',
                   b'up.example:80:80', b'[gggg::1]:443']


def reference(form: str, target: bytes) -> Optional[Tuple[str, int, bytes]]:
    """(host, port, origin-form path) per urllib/ipaddress, or None if the reference rejects the target."""
    try:
        t = target.decode('utf-8')
        if '#' in t or ' ' in t or not t:
            return None         # no fragment, no space in a request-target
        if form == 'absolute' and not t.startswith('http://'):
            return None
        if form == 'connect' and ('/' in t or '?' in t):
            return None
        u = urlsplit(t if form == 'absolute' else '//' + t)
        host = u.hostname
        port = u.port
    except (ValueError, UnicodeError):
        return None
    if not host:
        return None
    if form == 'connect' and (u.path or u.query or '?' in t):
        return None
    if u.netloc.count('@') > 1:
        return None         # an unescaped '@' inside userinfo: which one delimits the host is anybody's guess
    hostport = u.netloc.rsplit('@', 1)[-1]
    if ('[' in u.netloc or ']' in u.netloc) and re.match(r'^\[[0-9A-Fa-f:.]+\](:[0-9]*)?$', hostport) is None:
        return None
    if '[' in u.netloc[:-len(hostport)] or ']' in u.netloc[:-len(hostport)]:
        return None         # brackets are not userinfo characters
    if ':' in host or hostport.startswith('['):
        try:
            host = ipaddress.IPv6Address(host).compressed
        except ValueError:
            return None
    else:
        for ch in host:
            if ch in ' /\\@#?%[]':
                return None
        try:
            host.encode('idna')
        except UnicodeError:
            return None
    if port is None:
        port = 443 if form == 'connect' else 80
    path = u.path or '/'
    if '?' in t.split('//', 1)[-1]:
        path += '?' + u.query
    return host.lower(), port, path.encode('utf-8')


def lenient(form: str, target: bytes) -> List[Tuple[str, int]]:
    """Every (host, port) some reading of a target the strict reference rejects could be said to name: either '@' may end
    the userinfo, an empty port is the default port.  A connection attempt to anything outside this list is mis-routing."""
    t = target.decode('utf-8', 'replace')
    if form == 'absolute':
        if '://' not in t:
            return []
        t = t.split('://', 1)[1]
    auth = re.split(r'[/?#]', t, 1)[0]
    out: List[Tuple[str, int]] = []
    hps = {auth, auth.split('@', 1)[-1], auth.rsplit('@', 1)[-1]}
    if form == 'connect':
        # an authority-form target has no path: a reading that takes everything before an '@' for userinfo, '/' and '?' included,
        # is as good as one that cuts at them
        hps |= {t, t.split('@', 1)[-1], t.rsplit('@', 1)[-1]}
    for hp in sorted(hps):
        m = re.match(r'^\[(.*)\](?::([0-9]*))?$', hp)
        if m:
            host, ptxt = m.group(1), m.group(2) or ''
        elif ':' in hp and hp.rsplit(':', 1)[1].isdigit():
            host, ptxt = hp.rsplit(':', 1)
        elif hp.endswith(':'):
            host, ptxt = hp[:-1], ''
        else:
            host, ptxt = hp, ''
        prt = int(ptxt) if ptxt else (443 if form == 'connect' else 80)
        if host and prt < 65536:
            out.append((host.lower(), prt))
            if ':' in host and not m:
                # an unbracketed literal with its last group taken for the port ('0::1' -> '0::' port 1): what is left of the
                # literal may or may not keep the colon that preceded the port
                out.append((host.lower() + ':', prt))
                out.append((host.lower().rstrip(':'), prt))
    return out


def run_one(tape: Any, cfg: Dict[str, Any], forbid: FrozenSet[str] = frozenset()) -> Result:
    from ..actors import Origin, Peer
    from ..harness import L1, make_flags
    from ..httpgen import gen_cuts, gen_headers, h11_parse_requests, h11_parse_responses, render_head
    from ..kernel import World
    from .. import scen

    g = Gen(tape, forbid)
    res = Result()
    with World(tape) as w:
        scen.sched_swarm(w, tape)
        for k, v in DNS.items():
            w.dns[k] = [v]
        form = ['absolute', 'connect', 'origin'][tape.weighted([6, 3, 1], 'form')]
        damaged = form != 'origin' and g.feature('damaged', 0.2)
        nontrivial = damaged
        state: List[Any] = [form]
        exp: Optional[Tuple[str, int, bytes]] = None
        hostkind = ''
        if damaged:
            lst = DAMAGED_ABS if form == 'absolute' else DAMAGED_CONNECT
            target = lst[tape.draw(len(lst), 'damage')]
            w.probe('damaged')
            state.append(target)
            if reference(form, target) is not None:
                raise AssertionError('reference accepts damaged target %r' % target)
        elif form == 'origin':
            target = PATHS[1 + tape.draw(len(PATHS) - 1, 'path')]
            if not target.startswith(b'/') or target.startswith(b'//'):
                target = b'/' + target.lstrip(b'/')
            w.probe('origin_form')
        else:
            hk = tape.weighted([4, 2, 3], 'hostkind')
            if hk == 0:
                host, hostkind = NAMES[tape.draw(len(NAMES), 'name')]
                if hostkind == 'utf8_host' and not g.note('utf8_host'):
                    host, hostkind = NAMES[0]
                hraw = host
                if hostkind != 'regname':
                    nontrivial = True
            elif hk == 1:
                host = V4[tape.draw(len(V4), 'v4')]
                hraw = host
                hostkind = 'ipv4'
            else:
                host = V6[tape.draw(len(V6), 'v6')]
                if not g.note('ipv6_literal'):
                    host, hraw, hostkind = V4[0], V4[0], 'ipv4'
                else:
                    hraw = b'[' + host + b']'
                    hostkind = 'ipv6'
                    nontrivial = True
            w.probe(hostkind)
            pk = tape.weighted([4, 3, 1], 'portkind')
            port: Optional[int] = None
            if pk == 1:
                port = [80, 8080, 443, 1, 65535, 8899, 81][tape.draw(7, 'port')]
                w.probe('explicit_port')
                nontrivial = True
            elif pk == 2:
                if g.note('port_zero'):
                    port = 0
                    w.probe('port_zero')
                    nontrivial = True
            ui = b''
            if form == 'absolute':
                ui = USERINFO[tape.draw(len(USERINFO), 'userinfo')]
                if ui and not g.note('userinfo'):
                    ui = b''
                if ui:
                    w.probe('userinfo')
                    nontrivial = True
            authority = ui + hraw + (b':%d' % port if port is not None else b'')
            if form == 'absolute':
                pth = PATHS[tape.draw(len(PATHS), 'path')]
                if pth.startswith(b'?') and not g.note('query_without_path'):
                    pth = b'/' + pth
                if pth not in (b'', b'/', b'/a/b'):
                    w.probe('reserved_path')
                    nontrivial = True
                target = b'http://' + authority + pth
            else:
                target = authority
            w.probe(form)
            exp = reference(form, target)
            # cross-check the reference against the generator's own components
            mine_host = host.decode('utf-8').lower()
            if hostkind == 'ipv6':
                mine_host = ipaddress.IPv6Address(mine_host).compressed
            mine_port = port if port is not None else (443 if form == 'connect' else 80)
            if exp is None or exp[0] != mine_host or exp[1] != mine_port:
                raise AssertionError('reference %r disagrees with generator (%r, %r) for %r' % (exp, mine_host, mine_port, target))
            state += [hostkind, pk, ui, pth if form == 'absolute' else b'']
            if g.feature('mutated_target', 0.25):
                # one or two character-level edits; the reference decides afresh whether the result is a valid target
                keep = 7 if form == 'absolute' else 0      # the scheme stays: the edits are about host, port and path
                t2 = bytearray(target)
                for _ in range(1 + tape.draw(2, 'nmut')):
                    i = keep + tape.draw(len(t2) - keep + 1, 'mpos')
                    ch = MUT_ALPHABET[tape.draw(len(MUT_ALPHABET), 'mch')]
                    op = tape.draw(3, 'mop')
                    if op == 0 or i >= len(t2):
                        t2[i:i] = ch
                    elif op == 1:
                        del t2[i:i + 1]
                    else:
                        t2[i:i + 1] = ch
                if t2 and bytes(t2) != target and not bytes(t2).startswith(b'/'):
                    target = bytes(t2)
                    w.probe('mutated_target')
                    nontrivial = True
                    exp = reference(form, target)
                    state.append('mut')
                    if exp is None:
                        damaged = True
                        w.probe('damaged')
                    else:
                        hostkind = 'ipv6' if ':' in exp[0] else ('ipv4' if _is_v4(exp[0]) else 'regname')
                        port = exp[1]
        method = b'CONNECT' if form == 'connect' else [b'GET', b'POST', b'DELETE'][tape.draw(3, 'method')]
        hdrs = [(b'Host', b'ignored.example')] + gen_headers(tape, tape.draw(3, 'nh'), [b'host'])
        body = b''
        if method == b'POST':
            body = b'payload'
            hdrs.append((b'Content-Length', b'7'))
        head, marks = render_head(tape, method + b' ' + target + b' HTTP/1.1', hdrs)
        raw = head + body
        # ---- system ----------------------------------------------------------------------------------
        weblog: List[Any] = []
        from proxy.http.responses import okResponse
        from proxy.http.server import HttpWebServerBasePlugin, httpProtocolTypes

        class CatchAll(HttpWebServerBasePlugin):     # type: ignore[misc]
            def routes(self) -> List[Tuple[int, str]]:
                return [(httpProtocolTypes.HTTP, r'.*')]

            def handle_request(self, request: Any) -> None:
                weblog.append((request.path, request.host, request.port))
                self.client.queue(okResponse(content=b'web', conn_close=True))
        flags = make_flags(threadless=True, local_executor=1, timeout=3600, enable_web_server=True, plugins=[CatchAll])
        h = L1(w, flags)
        RESP = b'HTTP/1.1 200 OK\r\nContent-Length: 2\r\nConnection: close\r\n\r\nok'
        org = None
        ip = None
        if exp is not None and not damaged:
            ip = exp[0] if hostkind in ('ipv4', 'ipv6') else DNS.get(exp[0].encode('idna').decode('ascii'))
        if exp is not None and not damaged and ip is not None and 0 < exp[1] < 65536:
            if form == 'connect':
                org = Origin(w, ip, exp[1], lambda i: [('wait_rx', lambda p: len(p.rx) >= 4), ('send', b'pong', 'burst'),
                                                        ('wait_eof',), ('close',)], name='right')
            else:
                org = Origin(w, ip, exp[1], lambda i: [('serve', lambda p, info: [('send', RESP, 'burst'), ('close',)], 1)],
                             name='right')
        cuts = gen_cuts(tape, len(raw), marks)
        script: List[Any] = [('connect',), ('send', raw, 'cuts', cuts) if cuts else ('send', raw, 'burst')]
        if cuts:
            w.probe('segmented')
        if form == 'connect':
            script += [('wait_rx', lambda p: b'\r\n\r\n' in p.rx), ('send', b'ping', 'burst'),
                       ('wait_rx', lambda p: p.rx.endswith(b'pong')), ('close',)]
        else:
            script += [('wait_eof',), ('close',)]
        cl = Peer(w, 'client', script, read_mode='eager')
        cl.connect_fn = h.connector()
        w.settle(1.5, 120.0)
        scen.executor_check(w, h)

        # ---- oracle ------------------------------------------------------------------------------------
        if not w.failures and not w.hung:
            rx = bytes(cl.rx)
            oks = [c for c in w.connect_log if c[2] == 'ok']
            p = h11_parse_responses(rx, True, [method if method != b'CONNECT' else b'CONNECT'])
            first = p['responses'][0] if p['responses'] else None
            tdesc = target.decode('latin-1')
            if damaged:
                ok_dst = set()
                for hst, prt in lenient(form, target):
                    try:
                        adr = DNS.get(hst.encode('idna').decode('ascii').lower(), hst)
                    except UnicodeError:
                        adr = hst
                    ok_dst.add((_canon(adr), prt))
                if [c for c in w.connect_log if (_canon(c[0]), c[1]) not in ok_dst]:
                    w.fail('damaged_target_connected', _dk(target), 'target %r (rejected by the reference parser) caused a connection '
                           'attempt to %r' % (tdesc, w.connect_log[:2]))
                elif first is not None and first['status'] // 100 == 2:
                    w.fail('damaged_target_served', _dk(target), 'target %r answered with %d' % (tdesc, first['status']))
                elif first is None and not (cl.saw_eof or cl.saw_reset):
                    w.fail('damaged_target_ignored', _dk(target), 'target %r: neither an error response nor a close' % tdesc)
                else:
                    w.probe('rejected_damaged')
            elif form == 'origin':
                if w.connect_log or w.resolve_log:
                    w.fail('origin_form_connected', 'origin', 'origin-form target %r caused %r %r' % (tdesc, w.resolve_log, w.connect_log))
                elif not weblog or weblog[0][0] != target:
                    w.fail('wrong_path', 'origin', 'origin-form target %r reached the web route as %r' % (tdesc, weblog[:1]))
            else:
                assert exp is not None
                sig = '%s:%s%s%s' % (form, hostkind, ':userinfo' if form == 'absolute' and ui else '',
                                     ':port0' if port == 0 else '')
                want = (ipaddress.ip_address(ip).compressed, exp[1]) if ip is not None else None
                wrong = [c for c in w.connect_log if (_canon(c[0]), c[1]) != want]
                names = [r for r in w.resolve_log if not _same_name(r[0], exp[0], hostkind)]
                if wrong:
                    w.fail('connected_elsewhere', sig, 'target %r names %s port %d but the proxy tried %r'
                           % (tdesc, exp[0], exp[1], wrong[:3]))
                elif names:
                    w.fail('resolved_wrong_name', sig, 'target %r names host %r but the resolver was asked for %r'
                           % (tdesc, exp[0], names[:3]))
                elif port == 0 or org is None:
                    # unconnectable (port 0) or unknown name: the only acceptable outcome is an error answer
                    if first is not None and first['status'] // 100 == 2:
                        w.fail('port_zero_served', sig, 'target %r answered %d' % (tdesc, first['status']))
                elif not oks:
                    w.fail('not_connected', sig, 'valid target %r (host %s port %d): no connection was established; client got %r; '
                           'resolve log %r connect log %r' % (tdesc, exp[0], exp[1], rx[:60], w.resolve_log[:3], w.connect_log[:3]))
                elif len(oks) != 1:
                    w.fail('connected_twice', sig, '%d connections for one request: %r' % (len(oks), oks))
                elif form == 'connect':
                    if not rx.endswith(b'pong'):
                        w.fail('tunnel_broken', sig, 'client got %r' % rx[:80])
                    else:
                        w.probe('connected_right')
                else:
                    orx = bytes(org.conns[0].rx) if org.conns else b''
                    pr = h11_parse_requests(orx)
                    if pr['error'] or not pr['requests']:
                        w.fail('origin_bytes_malformed', sig, 'origin got %r (h11: %s)' % (orx[:100], pr['error']))
                    elif pr['requests'][0]['target'] != exp[2]:
                        w.fail('wrong_path', sig, 'target %r: origin received request-target %r, reference origin-form is %r'
                               % (tdesc, pr['requests'][0]['target'], exp[2]))
                    elif first is None or first['status'] != 200:
                        w.fail('not_served', sig, 'client got %r' % rx[:80])
                    else:
                        w.probe('connected_right')
        res.nontrivial = nontrivial or bool(cuts)
        res.features = g.features
        res.states = {hash(tuple(state)) & 0xffffffff}
        res.scenario = {'form': form, 'target': target.decode('latin-1'), 'damaged': damaged,
                        'reference': None if exp is None else (exp[0], exp[1], exp[2].decode('latin-1')),
                        'request': raw.decode('latin-1')[:300], 'cuts': cuts[:10]}
        return scen.end_run(w, h, res)


def _is_v4(h: str) -> bool:
    try:
        return ipaddress.ip_address(h).version == 4
    except ValueError:
        return False


def _canon(host: str) -> str:
    try:
        return ipaddress.ip_address(host).compressed
    except ValueError:
        return host


def _same_name(asked: Any, want: str, hostkind: str) -> bool:
    if isinstance(asked, bytes):
        try:
            asked = asked.decode('utf-8')
        except UnicodeError:
            return False
    if hostkind in ('ipv4', 'ipv6'):
        return _canon(asked) == _canon(want)
    try:
        return asked.encode('idna').lower() == want.encode('idna').lower()
    except UnicodeError:
        return False


def _dk(target: bytes) -> str:
    return target.decode('latin-1')[:24]
