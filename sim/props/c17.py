"""C17  Threaded, local-threadless and remote-threadless modes behave identically."""
import hashlib
from typing import Any, Dict, FrozenSet, List, Optional, Tuple

from . import Gen, Result

ID = 'C17'
TITLE = 'Threaded, local-threadless and remote-threadless modes behave identically'
RULE = ('one run = one generated scenario (1-8 concurrent client conversations drawn from: forward proxy with 1-3 '
        'requests on a persistent connection incl. bodies and a large response, CONNECT tunnel, built-in web route, '
        'reverse-proxy route, malformed request, refused upstream; every script is timing-independent) executed three '
        'times through the real Proxy(args).setup(): --threaded, --threadless --local-executor 1, --threadless '
        '--local-executor 0, with drawn numbers of acceptors and workers in {1,2,4}; listeners, acceptor and worker '
        'processes, descriptor passing and per-connection threads all run on the simulated kernel and each world draws '
        'its own schedule; compared per connection: client byte stream, upstream byte stream, and the order of data / '
        'close events (chunking and timing ignored); non-trivial = at least two concurrent clients or more than one '
        'acceptor / worker; distinct = distinct combined event-log digests')
PROBES = ['upload_reset', 'non_utf8_target', 'origin_closes', 'client_half_close', 'forward', 'forward_persistent', 'large_transfer', 'tunnel', 'web', 'reverse', 'malformed', 'refused',
          'concurrent_clients', 'acceptors_gt1', 'workers_gt1', 'all_three_equal']
COMPONENTS = {
    'real': ['proxy/proxy.py', 'proxy/core/acceptor/*.py', 'proxy/core/listener/*.py', 'proxy/core/work/threadless.py',
             'proxy/core/work/threaded.py', 'proxy/core/work/fd/local.py', 'proxy/core/work/fd/remote.py',
             'proxy/core/work/delegate.py', 'proxy/core/work/pool.py', 'proxy/http/handler.py', 'proxy/http/proxy/server.py',
             'proxy/http/server/web.py', 'proxy/http/server/reverse.py'],
    'stub': ['kernel (sockets, epoll, descriptor tables per process, pipes + handle passing, threads and processes under the '
             'baton-passing scheduler)', 'clients and origins', 'generated web / reverse-proxy plugins'],
}
ASSUMPTIONS = ['sim processes share one heap (fork/pickle of flags is not modelled)',
               'the local-threadless world is the reference; every conversation is scripted so that its bytes do not depend '
               'on timing (a peer acts only after it has received what it waits for)',
               'known findings of other properties (several requests per segment, follow-up to another origin) are kept out '
               'of the corpus']
TIERS = {
    'quick': {'runs': 2400, 'budget_s': 60, 'max_clients': 6, 'large': 60000},
    'thorough': {'runs': 80000, 'budget_s': 900, 'max_clients': 8, 'large': 1 << 20},
}
STATE_MEASURE = 'distinct (role multiset, acceptors, workers) tuples'
MODES = [('local', ['--threadless', '--local-executor', '1']), ('remote', ['--threadless', '--local-executor', '0']),
         ('threaded', ['--threaded'])]


def collapse(events: List[Tuple[str, int]]) -> List[str]:
    out: List[str] = []
    for k, _ in events:
        if not out or out[-1] != k:
            out.append(k)
    return out


def run_world(tape: Any, scenario: Dict[str, Any], mode_args: List[str], nacc: int, nwork: int, cfg: Dict[str, Any]) -> Dict[str, Any]:
    from ..actors import Origin, Peer
    from ..kernel import World
    from ..plugins import make_reverse_plugin, make_web_route_plugin
    from .. import scen
    from .c04 import count_responses

    out: Dict[str, Any] = {'conns': [], 'failures': [], 'hung': False}
    with World(tape) as w:
        scen.sched_swarm(w, tape)
        def web_body(tg: bytes) -> bytes:
            # the tag may ask for a large reply: b'c3-50000'
            n = int(tg.split(b'-')[1]) if b'-' in tg else 40
            return b'web-reply:' + tg + b'!' * n
        route = make_web_route_plugin(1, r'/web', web_body)
        rp = make_reverse_plugin([(r'/rev%d$' % k, [b'http://10.1.%d.1/base%d' % (k, k)]) for k in range(8)])
        from proxy.proxy import Proxy
        args = ['--hostname', '127.0.0.1', '--port', '8899', '--num-acceptors', str(nacc), '--num-workers', str(nwork),
                '--enable-reverse-proxy', '--timeout', '3600'] + mode_args
        p = Proxy(args, enable_web_server=True, plugins=[route, rp])
        p.setup()
        peers: List[Tuple[Any, Optional[Any]]] = []
        for k, cn in enumerate(scenario['conns']):
            role = cn['role']
            ip = '10.1.%d.1' % k
            org = None
            script: List[Any] = [('connect',)]
            if role == 'forward':
                resps = cn['resps']

                def responder(peer: Any, info: Dict[str, Any], resps: List[bytes] = resps) -> List[Any]:
                    return [('send', resps[min(peer.served - 1, len(resps) - 1)], 'dribble', 4096)]
                tail = [('close',)] if cn.get('origin_closes') else [('wait_eof',), ('close',)]
                org = Origin(w, ip, 80, lambda i, responder=responder, n=len(resps), tail=tail: [('serve', responder, n)] + list(tail),
                             name='o%d' % k, read_mode='chunky')
                for j, rq in enumerate(cn['reqs']):
                    script += [('send', rq, 'burst') if cn['burst'] else ('send', rq, 'dribble', 512), ('wait_rx', _responses_at_least(j + 1))]
                script += [('wait_eof',), ('close',)] if cn.get('origin_closes') else [('close',)]
            elif role == 'tunnel':
                org = Origin(w, ip, 443, lambda i, k=k: [('wait_rx', lambda pe: len(pe.rx) >= 6), ('send', b'pong-%d' % k, 'burst'),
                                                         ('wait_eof',), ('close',)], name='o%d' % k)
                script += [('send', b'CONNECT %s:443 HTTP/1.1\r\nHost: %s:443\r\n\r\n' % (ip.encode(), ip.encode()), 'burst'),
                           ('wait_rx', lambda pe: b'\r\n\r\n' in pe.rx), ('send', b'ping-%d' % k, 'burst'),
                           ('wait_rx', lambda pe, k=k: pe.rx.endswith(b'pong-%d' % k)), ('close',)]
            elif role == 'upload_reset':
                ans = (b'%d~' % k) * (cn['size'] // 3)
                org = Origin(w, ip, 443, lambda i, ans=ans: [('pause_read',), ('wait_rx', lambda pe: pe.st is not None and len(pe.st.rx) > 0),
                                                             ('send', ans, 'burst'), ('wait_drain',), ('sleep', 0.05), ('reset',)],
                             name='o%d' % k, cap_in=1024, reading=False)
                script += [('send', b'CONNECT %s:443 HTTP/1.1\r\nHost: %s:443\r\n\r\n' % (ip.encode(), ip.encode()), 'burst'),
                           ('wait_rx', lambda pe: b'\r\n\r\n' in pe.rx), ('pause_read',), ('send', b'U' * 20000, 'burst'),
                           ('sleep', 1.0), ('resume_read',), ('wait_eof',), ('close',)]
            elif role == 'web':
                tag = b'c%d' % k + (b'-%d' % cn['size'] if cn.get('size') else b'')
                script += [('send', b'GET /web HTTP/1.1\r\nHost: l\r\nX-Req-Tag: ' + tag + b'\r\n\r\n', 'burst')]
                if cn.get('halfclose'):
                    # request, FIN, then read to the end: the reply is still being produced when the proxy sees our EOF
                    script += [('shut_wr',), ('wait_eof',), ('close',)]
                else:
                    script += [('wait_rx', _responses_at_least(1)), ('close',)]
            elif role == 'reverse':
                org = Origin(w, ip, 80, lambda i, k=k: [('serve', lambda pe, info: [('send', b'HTTP/1.1 200 OK\r\nContent-Length: 5\r\n\r\nrev-%d' % k, 'burst')], 1),
                                                        ('wait_eof',), ('close',)], name='o%d' % k)
                script += [('send', b'GET /rev%d HTTP/1.1\r\nHost: pub\r\n\r\n' % k, 'burst'),
                           ('wait_rx', _responses_at_least(1)), ('close',)]
            elif role == 'malformed':
                script += [('send', cn['bytes'], 'burst'), ('wait_eof',), ('close',)]
            else:       # refused upstream
                script += [('send', b'GET http://10.1.%d.9/x' % k + (b'/caf\xe9' if cn.get('odd') else b'') +
                            b' HTTP/1.1\r\nHost: 10.1.%d.9\r\n\r\n' % k, 'burst'),
                           ('wait_eof',), ('close',)]
            c = Peer(w, 'c%d' % k, script, read_mode='chunky')
            capc = 1024 if (cn.get('halfclose') or role == 'upload_reset') else 65536
            c.connect_fn = (lambda k=k, capc=capc: (lambda peer: w.actor_connect('127.0.0.1', 8899, cap_to_client=capc, label='c%d' % k)))()
            peers.append((c, org))
        w.settle(2.0, 600.0)
        for c, org in peers:
            oc = org.conns if org is not None else []
            out['conns'].append({
                'client_rx': bytes(c.rx), 'client_events': collapse(c.rx_events), 'refused': c.refused,
                'finished': c.finished(),
                'origin_rx': [bytes(x.rx) for x in oc], 'origin_events': [collapse(x.rx_events) for x in oc],
            })
        try:
            p.shutdown()
        except Exception as e:       # noqa
            from ..kernel import _short_tb
            w.fail('shutdown_raised', _short_tb(e), repr(e))
        if w.hung:
            scen.hang_failure(w)
        out['failures'] = list(w.failures)
        out['hung'] = False
        out['digest'] = w.hexdigest()
        out['stats'] = dict(w.stats)
        out['now'] = w.now
        out['seq'] = w.seq
        out['steps'] = w.steps
        out['log'] = list(w.log)
    return out


def _responses_at_least(n: int) -> Any:
    """Wait condition 'the client has n complete responses'; evaluated at every scheduler step, so the count is cached per
    length of what was received (re-parsing a megabyte at every step made thorough runs trip the watchdog)."""
    from .c04 import count_responses
    memo = {'len': -1, 'n': 0}

    def cond(pe: Any) -> bool:
        if len(pe.rx) != memo['len']:
            memo['len'] = len(pe.rx)
            memo['n'] = count_responses(bytes(pe.rx))
        return memo['n'] >= n
    return cond


def run_one(tape: Any, cfg: Dict[str, Any], forbid: FrozenSet[str] = frozenset()) -> Result:
    g = Gen(tape, forbid)
    res = Result()
    # ---- the scenario (identical in all three worlds) --------------------------------------------------------------
    nclients = 1 + tape.small(cfg['max_clients'], 'nclients')
    nacc = [1, 2, 4][tape.draw(3, 'nacc')]
    nwork = [1, 2, 4][tape.draw(3, 'nwork')]
    conns: List[Dict[str, Any]] = []
    probes: List[str] = []
    for k in range(nclients):
        role = ['forward', 'tunnel', 'web', 'reverse', 'malformed', 'refused', 'upload_reset'][tape.weighted([5, 3, 2, 2, 1, 1, 1], 'role')]
        cn: Dict[str, Any] = {'role': role}
        probes.append(role)
        if role == 'forward':
            n = 1 + tape.weighted([3, 2, 1], 'nreq')
            if n > 1:
                probes.append('forward_persistent')
            reqs, resps = [], []
            # bytes that are not UTF-8 in the target (legal octets for the relay, awkward for the access log), and an origin
            # that ends the exchange itself so that the client sees the proxy's close
            odd = b'/caf\xe9' if tape.coin(0.25, 'odd-bytes') else b''
            cn['origin_closes'] = tape.coin(0.3, 'origin-closes')
            if odd:
                probes.append('non_utf8_target')
            if cn['origin_closes']:
                probes.append('origin_closes')
            for j in range(n):
                body = b'b' * tape.draw(200, 'bodylen') if tape.coin(0.4, 'post') else b''
                pad = b'X-Pad: ' + b'p' * [0, 0, 900, 3000][tape.draw(4, 'pad')] + b'\r\n'
                reqs.append((b'POST' if body else b'GET') + b' http://10.1.%d.1/r%d' % (k, j) + odd + b' HTTP/1.1\r\nHost: 10.1.%d.1\r\n' % k +
                            (pad if len(pad) > 9 else b'') +
                            (b'Content-Length: %d\r\n' % len(body) if body else b'') + b'\r\n' + body)
                big = tape.coin(0.2, 'large')
                if big:
                    probes.append('large_transfer')
                size = cfg['large'] if big else tape.draw(300, 'resplen')
                rb = (b'%d-%d:' % (k, j)) * (size // 4 + 1)
                rb = rb[:size]
                last = b'Connection: close\r\n' if (cn['origin_closes'] and j == n - 1) else b''
                resps.append(b'HTTP/1.1 200 OK\r\nContent-Length: %d\r\nX-R: %d-%d\r\n' % (len(rb), k, j) + last + b'\r\n' + rb)
            cn['reqs'], cn['resps'] = reqs, resps
            cn['burst'] = tape.coin(0.5, 'burst')
        elif role == 'web':
            if tape.coin(0.4, 'web-big'):
                cn['size'] = [2000, 30000][tape.draw(2, 'web-size')]
                cn['halfclose'] = tape.coin(0.6, 'halfclose')
                if cn['halfclose']:
                    probes.append('client_half_close')
        elif role == 'upload_reset':
            # a tunnel upload the origin never reads; it answers, waits until the proxy has taken the whole answer, and resets
            # while the client is still far behind with its reading
            cn['size'] = [3000, 40000][tape.draw(2, 'ur-size')]
        elif role == 'refused':
            cn['odd'] = tape.coin(0.3, 'odd-bytes')
            if cn['odd']:
                probes.append('non_utf8_target')
        elif role == 'malformed':
            cn['bytes'] = [b'garbage\r\n\r\n', b'GET ftp://x/ HTTP/1.1\r\n\r\n', b'GET / HTTP/9.9\r\n\r\n'][tape.draw(3, 'bad')]
        conns.append(cn)
    scenario = {'conns': conns}
    worlds: Dict[str, Dict[str, Any]] = {}
    for name, margs in MODES:
        worlds[name] = run_world(tape, scenario, margs, nacc, nwork, cfg)
    # ---- combine ------------------------------------------------------------------------------------------------------
    hsh = hashlib.blake2b(digest_size=16)
    failures: List[Tuple[str, str, str]] = []
    stats: Dict[str, int] = {}
    for name, _ in MODES:
        wd = worlds[name]
        hsh.update(wd['digest'].encode())
        for f in wd['failures']:
            failures.append((f[0], name + ':' + f[1], f[2]))
        if wd['hung']:
            failures.append(('hang', name, 'world %s hit the step / virtual-time cap' % name))
        for k2, v in wd['stats'].items():
            stats[k2] = stats.get(k2, 0) + v
    for pr in probes + (['concurrent_clients'] if nclients > 1 else []) + (['acceptors_gt1'] if nacc > 1 else []) + \
            (['workers_gt1'] if nwork > 1 else []):
        stats['probe:' + pr] = stats.get('probe:' + pr, 0) + 1
    ref = worlds['local']
    if not failures:
        for name in ('remote', 'threaded'):
            other = worlds[name]
            for k, (a, b) in enumerate(zip(ref['conns'], other['conns'])):
                role = conns[k]['role']
                sig = '%s:%s' % (name, role)
                if a['client_rx'] != b['client_rx']:
                    i = next((i for i in range(min(len(a['client_rx']), len(b['client_rx']))) if a['client_rx'][i] != b['client_rx'][i]),
                             min(len(a['client_rx']), len(b['client_rx'])))
                    failures.append(('client_bytes_differ', sig, 'connection %d (%s): client received %d bytes in local mode and %d in %s '
                                     'mode; first difference at %d: %r vs %r' % (k, role, len(a['client_rx']), len(b['client_rx']), name, i,
                                                                                  a['client_rx'][i:i + 40], b['client_rx'][i:i + 40])))
                elif a['origin_rx'] != b['origin_rx']:
                    failures.append(('upstream_bytes_differ', sig, 'connection %d (%s): upstream received %r in local mode, %r in %s mode'
                                     % (k, role, [x[:60] for x in a['origin_rx']], [x[:60] for x in b['origin_rx']], name)))
                elif a['client_events'] != b['client_events'] or a['origin_events'] != b['origin_events'] or a['refused'] != b['refused']:
                    failures.append(('event_order_differs', sig, 'connection %d (%s): client events %r / upstream events %r in local mode, '
                                     '%r / %r in %s mode' % (k, role, a['client_events'], a['origin_events'], b['client_events'],
                                                             b['origin_events'], name)))
                elif not a['finished'] or not b['finished']:
                    failures.append(('conversation_stuck', sig, 'connection %d (%s) did not complete (local finished=%s, %s finished=%s)'
                                     % (k, role, a['finished'], name, b['finished'])))
                if failures:
                    break
            if failures:
                break
    if not failures:
        stats['probe:all_three_equal'] = 1
    res.failures = failures
    res.digest = hsh.hexdigest()
    res.stats = stats
    res.vtime = sum(worlds[n]['now'] for n, _ in MODES)
    res.events = sum(worlds[n]['seq'] for n, _ in MODES)
    res.steps = sum(worlds[n]['steps'] for n, _ in MODES)
    res.log = worlds['local']['log'][:40]
    res.nontrivial = nclients > 1 or nacc > 1 or nwork > 1
    res.features = g.features
    res.states = {hash((tuple(sorted(c['role'] for c in conns)), nacc, nwork)) & 0xffffffff}
    res.scenario = {'roles': [c['role'] for c in conns], 'acceptors': nacc, 'workers': nwork,
                    'requests': [[r.decode('latin-1')[:80] for r in c.get('reqs', [])] for c in conns]}
    return res
