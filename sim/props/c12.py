"""C12  Reverse proxy routes matching requests to a configured upstream, as documented."""
import re
from typing import Any, Dict, FrozenSet, List, Optional, Tuple

from . import Gen, Result

ID = 'C12'
TITLE = 'Reverse proxy routes matching requests to a configured upstream, as documented'
RULE = ('one run = a generated ReverseProxyBasePlugin route table (1-3 static routes with 1-3 http upstream URLs each, '
        'with / without explicit port and path, host as name or literal; optionally a dynamic route returning a Url '
        'or a literal response) and 1-2 client connections each sending one generated request (drawn method, headers, '
        'Content-Length or chunked body, drawn segmentation) whose path matches none / one / several routes, with '
        '--rewrite-host-header on or off; random.choice is a tape draw; observed through the kernel\'s connect log, '
        'the origin transcript (h11) and the client transcript; non-trivial = the request matches a route with '
        'several URLs or several routes, or is segmented, or has a body; distinct = distinct event-log digests')
PROBES = ['https_upstream', 'followup_literal', 'no_match', 'one_match', 'several_match', 'multi_url_route', 'dynamic_url', 'dynamic_literal', 'rewrite_host',
          'explicit_port', 'url_with_path', 'name_upstream', 'body', 'chunked_body', 'segmented', 'routed_right',
          'answered_404']
COMPONENTS = {
    'real': ['proxy/http/server/reverse.py', 'proxy/http/server/web.py', 'proxy/http/server/plugin.py',
             'proxy/core/base/tcp_upstream.py', 'proxy/http/parser/parser.py (build)', 'proxy/http/url.py',
             'proxy/http/handler.py', 'proxy/core/work/threadless.py'],
    'stub': ['kernel (connect log; random.choice drawn from the tape)', 'peers', 'generated route-table plugin'],
}
ASSUMPTIONS = ['one https upstream URL is exercised (default port 443, real TLS towards a scripted origin whose certificate the '
               '--ca-file trusts); certificate failures towards upstreams are C11\'s subject',
               'request paths carry no query string (whether a route regex is applied to the path or to path+query is '
               'not fixed by the documentation)',
               'when several routes match, any URL of any matching route is accepted as the target',
               'one request per connection, optionally followed by one request that a dynamic route answers with a literal '
               'response (other sequences on one connection are C04)']
TIERS = {
    'quick': {'runs': 7000, 'budget_s': 40, 'max_body': 300},
    'thorough': {'runs': 700000, 'budget_s': 900, 'max_body': 6000, 'watchdog_s': 300},
}
STATE_MEASURE = 'distinct (match class, url form, rewrite, method, framing) tuples'

ROUTES = [r'/get$', r'/api/.*', r'/a', r'/(x|y)/z$', r'/api/v1/users$', r'/$', r'/img/[0-9]+\.png$',
          r'/lit/thing$', r'/dyn/.*']       # (the last two overlap with the dynamic routes)
PATHS = ['/get', '/api/v1/users', '/api/', '/a', '/abc', '/x/z', '/y/z', '/', '/img/12.png', '/nothing', '/ge', '/API/x',
         '/get/more', '/dyn/thing', '/lit/thing', '/z/x', '/api/get', '/x/z/a']
URLS = [(b'http://10.0.5.1', ('10.0.5.1', 80)), (b'http://10.0.5.1/', ('10.0.5.1', 80)),
        (b'http://10.0.5.2:8080/base', ('10.0.5.2', 8080)), (b'http://up1.example/a/b?fixed=1', ('10.0.5.3', 80)),
        (b'http://up2.example:81', ('10.0.5.4', 81)), (b'http://10.0.5.5:80/x/', ('10.0.5.5', 80)),
        (b'http://10.0.5.6:8000/deep/path/here', ('10.0.5.6', 8000)),
        # an https upstream: default port 443, TLS towards the origin (verified against --ca-file)
        (b'https://secure-up.example/s', ('10.0.5.7', 443)),
        (b'https://secure-up.example:8443/t', ('10.0.5.7', 8443))]        # ... and an https upstream on a port of its own
_px: Dict[str, Any] = {}


def setup_worker(job: Dict[str, Any]) -> None:
    from ..tls import fixtures, origin_cert
    px = fixtures(job['scratch'])
    _px.update(px)
    _px['secure-up'] = origin_cert(px, 'secure-up.example', 'good')


def run_one(tape: Any, cfg: Dict[str, Any], forbid: FrozenSet[str] = frozenset()) -> Result:
    from ..actors import Origin, Peer
    from ..harness import L1, make_flags
    from ..httpgen import gen_cuts, gen_request, gen_response, h11_parse_requests, h11_parse_responses
    from ..kernel import World
    from ..plugins import make_reverse_plugin
    from .. import scen
    from proxy.http.responses import okResponse
    from proxy.http.url import Url

    g = Gen(tape, forbid)
    res = Result()
    with World(tape) as w:
        scen.sched_swarm(w, tape)
        w.dns['up1.example'] = ['10.0.5.3']
        w.dns['up2.example'] = ['10.0.5.4']
        w.dns['secure-up.example'] = ['10.0.5.7']
        rewrite = g.feature('rewrite_host', 0.5)
        if rewrite:
            w.probe('rewrite_host')
        nroutes = 1 + tape.weighted([3, 3, 2], 'nroutes')
        table: List[Any] = []
        used = set()
        for i in range(nroutes):
            rx_ = ROUTES[tape.draw(len(ROUTES), 'route')]
            if rx_ in used:
                continue
            used.add(rx_)
            nurl = 1 + tape.weighted([4, 2, 1], 'nurl')
            urls = [URLS[tape.draw(len(URLS), 'url')][0] for _ in range(nurl)]
            urls = [u if not u.startswith(b'https') or g.note('https_upstream') else URLS[0][0] for u in urls]
            if any(u.startswith(b'https') for u in urls):
                w.probe('https_upstream')
            table.append((rx_, urls))
        dyn: Dict[str, Any] = {}
        LIT = okResponse(content=b'literal-response', headers={b'X-Origin': b'literal'}, compress=False)
        if g.feature('dynamic_route', 0.45):
            if tape.coin(0.5, 'dynkind'):
                table.insert(tape.draw(len(table) + 1, 'dynpos'), r'/dyn/(.*)$')
                dyn[r'/dyn/(.*)$'] = Url.from_bytes(b'http://10.0.5.9:8080/dynbase')
            else:
                table.insert(tape.draw(len(table) + 1, 'dynpos'), r'/lit/.*')
                dyn[r'/lit/.*'] = LIT
        plugin = make_reverse_plugin(table, None, dyn)
        popts = scen.proxy_opts(tape, 16)
        if any(not isinstance(r_, str) and any(u.startswith(b'https') for u in r_[1]) for r_ in table):
            # a receive buffer smaller than a TLS record leaves plaintext inside OpenSSL where select() cannot see it: that
            # configuration is a separate question (same decision as in C11), the knob stays at its default next to TLS
            popts.pop('server_recvbuf_size', None)
        flags = make_flags(['--enable-reverse-proxy'] + (['--rewrite-host-header'] if rewrite else []),
                           threadless=True, local_executor=1, timeout=3600,
                           enable_web_server=True, plugins=[plugin], ca_file=_px['pub_cert'],
                           **popts)
        h = L1(w, flags)
        # origins: one per distinct address; every response names the origin and echoes nothing else
        addrs = sorted({a for _, a in URLS} | {('10.0.5.9', 8080)})
        origins: Dict[Tuple[str, int], Any] = {}
        resp_by_conn: Dict[int, List[bytes]] = {}
        for a in addrs:
            def mk(a: Tuple[str, int]) -> Any:
                def responder(peer: Any, info: Dict[str, Any]) -> List[Any]:
                    r, m = gen_response(tape, g, 200, tag=('%s:%d' % a).encode(), allow_interim=False)
                    resp_by_conn.setdefault(id(peer), []).append(r)
                    return [('send', r, 'burst')]
                pre: List[Any] = []
                if a[1] in (443, 8443):
                    import ssl
                    sctx = ssl.SSLContext(ssl.PROTOCOL_TLS_SERVER)
                    sctx.load_cert_chain(_px['secure-up']['cert'], _px['secure-up']['key'])
                    pre = [('tls_server', sctx), ('wait_tls',)]
                return Origin(w, a[0], a[1], lambda i: list(pre) + [('serve', responder, 5), ('wait_eof',), ('close',)],
                              name='%s:%d' % a)
            origins[a] = mk(a)
        nconn = 1 + tape.draw(2, 'nconn')
        conns: List[Dict[str, Any]] = []
        nontrivial = False
        states = set()
        for k in range(nconn):
            path = PATHS[tape.draw(len(PATHS), 'path')]
            if tape.coin(0.6, 'aim'):
                # aim at a configured route
                r_ = table[tape.draw(len(table), 'aim-route')]
                rs = r_ if isinstance(r_, str) else r_[0]
                hits = [p_ for p_ in PATHS if re.compile(rs).match(p_)]
                if hits:
                    path = hits[tape.draw(len(hits), 'aim-path')]
            raw, meta = gen_request(tape, g, form='origin', host=b'public.example', max_body=cfg['max_body'],
                                    path=path.encode(), allow_http10=False, extra=[(b'X-Conn', b'c%d' % k)],
                                    methods=[b'GET', b'POST', b'PUT', b'DELETE', b'PATCH', b'OPTIONS'])
            cuts = gen_cuts(tape, len(raw), meta['marks'])
            matching = [r for r in table if re.compile(r if isinstance(r, str) else r[0]).match(path)]
            cands: List[Tuple[bytes, Tuple[str, int]]] = []
            literal = False
            for r in matching:
                if isinstance(r, str):
                    if isinstance(dyn[r], Url):
                        cands.append((b'http://10.0.5.9:8080/dynbase', ('10.0.5.9', 8080)))
                    else:
                        literal = True
                else:
                    for u in r[1]:
                        cands.append((u, dict(URLS)[u]))
            klass = 'no_match' if not matching else ('one_match' if len(matching) == 1 else 'several_match')
            w.probe(klass)
            if any(not isinstance(r, str) and len(r[1]) > 1 for r in matching):
                w.probe('multi_url_route')
                nontrivial = True
            if len(matching) > 1 or cuts or meta['body']:
                nontrivial = True
            if meta['body']:
                w.probe('body')
            if meta['framing'] == 'chunked':
                w.probe('chunked_body')
            if cuts:
                w.probe('segmented')
            script: List[Any] = [('sleep', 0.3 * k), ('connect',),
                                 ('send', raw, 'cuts', cuts) if cuts else ('send', raw, 'burst'),
                                 ('wait_rx', lambda p: _count(bytes(p.rx)) >= 1)]
            followup = bool(cands) and not literal and r'/lit/.*' in dyn and g.feature('followup_literal', 0.5)
            if followup:
                # a second request on the same connection, answered by the dynamic route's literal response:
                # it must not reach any upstream
                w.probe('followup_literal')
                nontrivial = True
                script += [('send', b'GET /lit/again HTTP/1.1\r\nHost: public.example\r\n\r\n', 'burst'),
                           ('wait_rx', lambda p: _count(bytes(p.rx)) >= 2)]
            script += [('sleep', 0.2), ('close',)]
            c = Peer(w, 'c%d' % k, script, read_mode='chunky')
            c.connect_fn = h.connector()
            conns.append({'client': c, 'path': path, 'raw': raw, 'meta': meta, 'matching': matching, 'cands': cands,
                          'literal': literal, 'klass': klass, 'followup': followup})
            states.add(hash((klass, rewrite, meta['method'], meta['framing'], literal)) & 0xffffffff)
        marks: List[int] = []

        def on_step_connect_marks() -> None:
            pass
        # connections are sequential (0.3 s apart) so that connect-log entries can be attributed by order
        w.settle(1.5, 200.0)
        scen.executor_check(w, h)

        # ---- oracle ----------------------------------------------------------------------------------------
        if not w.failures and not w.hung:
            clog = list(w.connect_log)
            ci = 0
            served_per_origin: Dict[Tuple[str, int], int] = {}
            for k, cn in enumerate(conns):
                c = cn['client']
                rx = bytes(c.rx)
                meta = cn['meta']
                p = h11_parse_responses(rx, c.saw_eof or c.saw_reset, [meta['method']])
                resp = [r for r in p['responses'] if not r.get('interim')]
                sig = cn['klass']
                if not cn['matching']:
                    if p['error'] or len(resp) != 1 or resp[0]['status'] != 404:
                        w.fail('no_404_for_unrouted', sig, 'path %r matches no route of %r but client got %r'
                               % (cn['path'], [r if isinstance(r, str) else r[0] for r in table], rx[:80]))
                        break
                    w.probe('answered_404')
                    continue
                # find the upstream connection that carries this client connection's marker header (connections may
                # overtake one another, so order proves nothing)
                marker = b'c%d' % k
                found = [(a, i) for a, o in origins.items() for i, oc in enumerate(o.conns)
                         if (b'X-Conn: ' + marker + b'\r\n') in bytes(oc.rx) or (b'X-Conn:' + marker + b'\r\n') in bytes(oc.rx)
                         or re.search(rb'(?i)x-conn:[ \t]*' + marker + rb'[ \t]*\r\n', bytes(oc.rx))]
                if cn['literal'] and (not cn['cands'] or not found):
                    # the literal route answered (when a static route matches as well either may serve the request, but only one)
                    if rx != bytes(LIT):
                        w.fail('literal_response_altered', sig, 'dynamic route returned a literal response, client got %r' % rx[:100])
                        break
                    w.probe('dynamic_literal')
                    continue
                # exactly one outbound connection for this request, to a candidate
                if not found:
                    w.fail('not_forwarded', sig, 'path %r matches %r but no upstream received the request; client got %r; connect log %r'
                           % (cn['path'], [r if isinstance(r, str) else r[0] for r in cn['matching']], rx[:80], clog[:4]))
                    break
                if len(found) > 1:
                    w.fail('forwarded_twice', sig, 'request of connection %d reached %d upstream connections: %r' % (k, len(found), found))
                    break
                tgt, idx = found[0]
                ci += 1
                if tgt not in [a for _, a in cn['cands']]:
                    w.fail('wrong_upstream', sig, 'path %r: forwarded to %r; URLs of the matching routes: %r'
                           % (cn['path'], tgt, [u for u, _ in cn['cands']]))
                    break
                o = origins[tgt]
                orx = bytes(o.conns[idx].rx)
                pr = h11_parse_requests(orx)
                if pr['error'] or len(pr['requests']) != 1 or not pr['requests'][0]['complete']:
                    w.fail('origin_bytes_malformed', sig, 'origin %r received %r (h11: %s)' % (tgt, orx[:120], pr['error']))
                    break
                r = pr['requests'][0]
                urls_here = [u for u, a in cn['cands'] if a == tgt]
                exp_targets = set()
                for u in urls_here:
                    rest = u.split(b'://', 1)[1]
                    i = rest.find(b'/')
                    exp_targets.add(rest[i:] if i >= 0 else b'/')
                    if b':' in rest.split(b'/', 1)[0]:
                        w.probe('explicit_port')
                    if i >= 0 and rest[i:] != b'/':
                        w.probe('url_with_path')
                    if rest.startswith(b'up'):
                        w.probe('name_upstream')
                if r['method'] != meta['method']:
                    w.fail('wrong_method', sig, '%r != %r' % (r['method'], meta['method']))
                    break
                if r['target'] not in exp_targets:
                    w.fail('wrong_path', sig, 'path %r routed to %r: origin got request-target %r, the URL path is %r'
                           % (cn['path'], urls_here, r['target'], sorted(exp_targets)))
                    break
                FR = (b'content-length', b'transfer-encoding')
                exp_h = sorted((n, v.strip()) for n, v in meta['headers'] if n.lower() not in FR and n.lower() != b'host')
                got_h = sorted((n, v.strip()) for n, v in r['headers'] if n.lower() not in FR and n.lower() != b'host')
                if exp_h != got_h:
                    w.fail('headers_changed', sig, 'missing %r unexpected %r' % ([x for x in exp_h if x not in got_h][:4],
                                                                                [x for x in got_h if x not in exp_h][:4]))
                    break
                hosts = [v.strip() for n, v in r['headers'] if n.lower() == b'host']
                auths = {u.split(b'://', 1)[1].split(b'/', 1)[0] for u in urls_here}
                if rewrite:
                    if len(hosts) != 1 or hosts[0] not in auths:
                        w.fail('host_not_rewritten', sig, 'rewrite on: origin got Host %r, upstream authority is %r' % (hosts, sorted(auths)))
                        break
                else:
                    if hosts != [b'public.example']:
                        w.fail('host_rewritten', sig, 'rewrite off: origin got Host %r, client sent public.example' % hosts)
                        break
                if r['body'] != meta['body']:
                    w.fail('wrong_body', sig + ':' + meta['framing'], 'decoded body differs (%d vs %d bytes)' % (len(r['body']), len(meta['body'])))
                    break
                sent = resp_by_conn.get(id(o.conns[idx]), [])
                idx = 0
                if cn['followup'] and idx < len(sent):
                    if rx != sent[idx] + bytes(LIT):
                        w.fail('followup_literal_wrong', sig, 'second request on the connection matches the literal route: client must get '
                               'the upstream response followed by the literal one, got %r' % rx[len(sent[idx]) - 20:][:200])
                        break
                elif idx >= len(sent) or rx != sent[idx]:
                    w.fail('response_altered', sig, 'client received %r..., origin sent %r...' % (rx[:80], (sent[idx] if idx < len(sent) else b'')[:80]))
                    break
                if tgt == ('10.0.5.9', 8080):
                    w.probe('dynamic_url')
                w.probe('routed_right')
            if not w.failures and ci != len(clog):
                w.fail('extra_connection', 'c12', '%d outbound connection attempts for %d routed requests: %r' % (len(clog), ci, clog[:6]))
        res.nontrivial = nontrivial
        res.features = g.features
        res.states = states
        res.scenario = {'table': [r if isinstance(r, str) else (r[0], [u.decode() for u in r[1]]) for r in table],
                        'rewrite': rewrite, 'requests': [cn['raw'].decode('latin-1')[:300] for cn in conns],
                        'classes': [cn['klass'] for cn in conns]}
        return scen.end_run(w, h, res)


def _count(rx: bytes) -> int:
    from .c04 import count_responses
    return count_responses(rx)
