"""C18  Event bus delivers each event to every current subscriber exactly once, in order."""
import threading
from typing import Any, Dict, FrozenSet, List, Optional, Tuple

from . import Gen, Result
from ..kernel import Actor

ID = 'C18'
TITLE = 'Event bus delivers each event to every current subscriber exactly once, in order'
RULE = ('one run = the real EventDispatcher.run() in a simulated thread on a simulated multiprocessing.Queue, driven '
        'through the real EventQueue API by 1-3 publisher lanes and 1-3 subscriber lanes (subscribe, unsubscribe incl. '
        'repeated and unknown ids, re-subscribe on a fresh channel, channel breakage) whose operations are interleaved '
        'by the seeded scheduler; channels are simulated multiprocessing pipes, drained by a harness reader or by the '
        'real EventSubscriber.relay thread; a channel breaks either by BrokenPipeError from its n-th send (drawn n) or '
        'by the subscriber closing its end at a drawn moment; the reference model replays the global enqueue order '
        'assigned by the simulated queue; non-trivial = at least two lanes interleave or a channel breaks; '
        'distinct = distinct event-log digests')
PROBES = ['subscribe_again_same_channel', 'multi_subscriber', 'multi_publisher', 'unsubscribe', 'unsubscribe_unknown', 'unsubscribe_repeated',
          'resubscribe', 'break_at_nth_send', 'break_by_close', 'break_at_ack', 'relay_thread', 'late_publish',
          'idle_timeout_cycle', 'events_delivered', 'dispatcher_shutdown_clean']
COMPONENTS = {
    'real': ['proxy/core/event/dispatcher.py', 'proxy/core/event/queue.py', 'proxy/core/event/subscriber.py (relay)',
             'proxy/core/event/names.py'],
    'stub': ['multiprocessing.Queue / Pipe (simulated: FIFO queue whose put order is the global publication order; '
             'message pipes with peer-closed -> BrokenPipeError, the only failure the real Connection.send produces for a '
             'dead peer)', 'publishers and subscribers (scripted lanes)', 'threads (baton-passing scheduler)'],
}
ASSUMPTIONS = ['publication order = the order in which events enter the shared queue (assigned by the simulated queue)',
               'a channel never blocks the dispatcher (pipe capacity is not modelled: a subscriber that stops reading '
               'without closing is outside this property)',
               'sim processes share one heap: the channel object travels through the queue by reference, not by pickling']
TIERS = {
    'quick': {'runs': 12000, 'budget_s': 40, 'max_ops': 10},
    'thorough': {'runs': 1200000, 'budget_s': 900, 'max_ops': 40},
}
STATE_MEASURE = 'distinct abstract dispatcher states (sorted tuple of (subscriber, alive/broken)) seen by the model'


class Lane(Actor):
    """One publisher or subscriber: executes its ops in order, one per scheduler step."""

    def __init__(self, world: Any, name: str, ops: List[Any]) -> None:
        self.w = world
        self.name = name
        self.ops = list(ops)
        self.pc = 0
        self._until: Optional[float] = None
        world.actors.append(self)

    def enabled(self) -> bool:
        if self.pc >= len(self.ops):
            return False
        op = self.ops[self.pc]
        if op[0] == 'sleep':
            return self._until is None or self.w.now >= self._until
        return True

    def next_deadline(self) -> Optional[float]:
        if self.pc < len(self.ops) and self.ops[self.pc][0] == 'sleep' and self._until is not None:
            return self._until
        return None

    def step(self) -> None:
        op = self.ops[self.pc]
        if op[0] == 'sleep':
            if self._until is None:
                self._until = self.w.now + op[1]
                return
            self._until = None
            self.pc += 1
            return
        op[1]()
        self.w.touch()
        self.pc += 1


class Reader(Actor):
    """Harness-side drain of one channel: moves every delivered message to `got` as soon as scheduled."""

    def __init__(self, world: Any, name: str, conn: Any) -> None:
        self.w = world
        self.name = name
        self.conn = conn
        self.got: List[Any] = []
        self.eof = False
        self.stopped = False
        world.actors.append(self)

    def enabled(self) -> bool:
        if self.stopped or self.eof:
            return False
        e = self.conn._end
        return bool(e.q) or (e.peer is not None and e.peer.closed)

    def next_deadline(self) -> Optional[float]:
        return None

    def step(self) -> None:
        e = self.conn._end
        if e.q:
            kind, obj = e.q.pop(0)
            self.got.append(obj)
            self.w.ev(self.name, 'chan.read', obj.get('event_name'))
            self.w.touch()
        else:
            self.eof = True
            self.w.ev(self.name, 'chan.read', 'EOF')


def run_one(tape: Any, cfg: Dict[str, Any], forbid: FrozenSet[str] = frozenset()) -> Result:
    from ..kernel import SimThread, World
    from ..mp import SimQueue, sim_pipe
    from .. import scen
    from proxy.core.event import EventDispatcher, EventQueue, eventNames
    from proxy.core.event.subscriber import EventSubscriber

    g = Gen(tape, forbid)
    res = Result()
    with World(tape) as w:
        scen.sched_swarm(w, tape)
        q = SimQueue()
        G: List[Any] = []
        q.on_put = lambda seq, obj: G.append(obj)
        eq = EventQueue(q)
        shutdown = threading.Event()
        disp = EventDispatcher(shutdown=shutdown, event_queue=eq)
        th = SimThread(target=disp.run, name='dispatcher')
        th.start()
        npub = 1 + tape.weighted([3, 2, 1], 'npub')
        nsub = 1 + tape.weighted([2, 3, 2], 'nsub')
        if npub > 1:
            w.probe('multi_publisher')
        if nsub > 1:
            w.probe('multi_subscriber')
        max_ops = cfg['max_ops']
        channels: List[Dict[str, Any]] = []      # one per subscription epoch
        nontrivial = (npub + nsub) > 2
        serial = [0]

        def gap() -> List[Any]:
            k = tape.weighted([6, 2, 1], 'gap')
            if k == 0:
                return []
            if k == 2:
                w.probe('idle_timeout_cycle')
            return [('sleep', [0.0, 0.01, 1.3][k])]
        # ---- publisher lanes ------------------------------------------------------------------------------------
        for p in range(npub):
            ops: List[Any] = []
            for j in range(1 + tape.draw(max_ops, 'npubops')):
                ops += gap()

                def pub(p: int = p, j: int = j) -> None:
                    serial[0] += 1
                    eq.publish(request_id='r%d' % p, event_name=eventNames.WORK_STARTED if j % 2 else eventNames.REQUEST_COMPLETE,
                               event_payload={'pub': p, 'n': j}, publisher_id='pub%d' % p)
                ops.append(('pub', pub))
            Lane(w, 'pub%d' % p, ops)
        # ---- subscriber lanes -------------------------------------------------------------------------------------
        for s in range(nsub):
            ops = []
            epochs = 1 + tape.weighted([4, 1], 'epochs')
            if epochs > 1:
                w.probe('resubscribe')
            for e in range(epochs):
                sub_id = 'sub%d' % s if tape.coin(0.7, 'same-id') or e == 0 else 'sub%d-%d' % (s, e)
                ch: Dict[str, Any] = {'sub_id': sub_id, 'lane': s, 'epoch': e, 'break_after': None, 'closed_by_sub': False,
                                      'reader': None, 'relay': None, 'relay_got': [], 'send': None, 'recv': None}
                channels.append(ch)
                use_relay = g.feature('relay_thread', 0.25)
                brk = tape.weighted([5, 2, 2], 'break')      # 0 none, 1 nth send, 2 subscriber closes its end
                ops += gap()

                def do_sub(ch: Dict[str, Any] = ch, use_relay: bool = use_relay, brk: int = brk) -> None:
                    recv, send = sim_pipe()
                    ch['recv'], ch['send'] = recv, send
                    if brk == 1:
                        ch['break_after'] = tape.draw(6, 'break-n')
                        send.break_after = ch['break_after']
                        w.probe('break_at_ack' if ch['break_after'] == 0 else 'break_at_nth_send')
                    if use_relay and brk == 0:
                        w.probe('relay_thread')
                        ev_ = threading.Event()
                        t = SimThread(target=EventSubscriber.relay,
                                      args=(ch['sub_id'], ev_, recv, lambda ev, ch=ch: ch['relay_got'].append(ev)),
                                      name='relay-%s-%d' % (ch['sub_id'], ch['epoch']))
                        ch['relay'] = (t, ev_)
                        t.start()
                    else:
                        ch['reader'] = Reader(w, 'reader-%s-%d' % (ch['sub_id'], ch['epoch']), recv)
                    eq.subscribe(ch['sub_id'], send)
                ops.append(('sub', do_sub))
                for _ in range(tape.draw(3, 'subwait')):
                    ops += gap() or [('sleep', 0.0)]
                if brk == 0 and not use_relay and tape.coin(0.2, 'sub-again'):
                    # the same subscriber subscribes once more with the channel it already has (e.g. subscribe() called twice):
                    # acknowledged again, and the subscription simply goes on
                    ops.append(('sub', lambda ch=ch: (eq.subscribe(ch['sub_id'], ch['send']), w.probe('subscribe_again_same_channel'))))
                    ops += gap()
                if brk == 2:
                    def do_break(ch: Dict[str, Any] = ch) -> None:
                        if ch['reader'] is not None:
                            ch['reader'].stopped = True
                        ch['closed_by_sub'] = True
                        ch['recv'].close()
                        w.probe('break_by_close')
                    ops.append(('break', do_break))
                    ops += gap()
                un = tape.weighted([3, 4, 1, 1], 'unsub')      # 0 never, 1 once, 2 twice, 3 unknown id first
                if e < epochs - 1 and un == 0:
                    un = 1
                if un == 3:
                    ops.append(('unsub?', lambda: (eq.unsubscribe('nobody-%d' % serial[0]), w.probe('unsubscribe_unknown'))))
                if un in (1, 2, 3):
                    ops.append(('unsub', lambda ch=ch: (eq.unsubscribe(ch['sub_id']), w.probe('unsubscribe'))))
                    ops += gap()
                if un == 2:
                    ops.append(('unsub', lambda ch=ch: (eq.unsubscribe(ch['sub_id']), w.probe('unsubscribe_repeated'))))
            Lane(w, 'sublane%d' % s, ops)
        if tape.coin(0.3, 'late'):
            w.probe('late_publish')
            Lane(w, 'late', [('sleep', 2.5), ('pub', lambda: eq.publish(request_id='late', event_name=eventNames.WORK_FINISHED,
                                                                       event_payload={'pub': 'late', 'n': 0}))])
        w.settle(2.5, 120.0)
        alive = not th.finished
        if not alive:
            from ..kernel import _short_tb
            w.fail('dispatcher_died', _short_tb(th.exc) if th.exc else 'returned', 'dispatcher thread ended: %r' % (th.exc,))
        # ---- reference model over the global enqueue order --------------------------------------------------------------
        states = set()
        if not w.failures and not w.hung:
            by_send = {id(ch['send']): ch for ch in channels if ch['send'] is not None}
            subs: Dict[str, Dict[str, Any]] = {}
            for ch in channels:
                ch['expected'] = []
                ch['attempts'] = 0
                ch['dead'] = False

            def deliver(ch: Dict[str, Any], msg: Any) -> bool:
                """Model of one send: False if the channel is (now) broken."""
                if ch['break_after'] is not None and ch['attempts'] >= ch['break_after']:
                    ch['dead'] = True
                    return False
                ch['attempts'] += 1
                ch['expected'].append(msg)
                return True
            for ev in G:
                name = ev['event_name']
                if name == eventNames.SUBSCRIBE:
                    ch = by_send[id(ev['event_payload']['conn'])]
                    subs[ev['event_payload']['sub_id']] = ch
                    if not deliver(ch, 'SUBSCRIBED'):
                        del subs[ev['event_payload']['sub_id']]
                elif name == eventNames.UNSUBSCRIBE:
                    sid = ev['event_payload']['sub_id']
                    if sid in subs:
                        deliver(subs[sid], 'UNSUBSCRIBED')
                        subs[sid]['unsubscribed'] = True
                        del subs[sid]
                else:
                    key = (ev['event_payload'].get('pub'), ev['event_payload'].get('n'))
                    for sid in list(subs):
                        if not deliver(subs[sid], key):
                            del subs[sid]
                states.add(hash(tuple(sorted((sid, c['dead']) for sid, c in subs.items()))) & 0xffffffff)
            # ---- compare --------------------------------------------------------------------------------------------------
            for ch in channels:
                if ch['send'] is None:
                    continue
                tag = '%s#%d' % (ch['sub_id'], ch['epoch'])
                if ch['relay'] is not None:
                    got = [(e['event_payload'].get('pub'), e['event_payload'].get('n')) for e in ch['relay_got']]
                    want = [m for m in ch['expected'] if not isinstance(m, str)]
                    if got != want:
                        w.fail(_kind(got, want), 'relay', 'subscriber %s (real relay thread): callback got %r, expected %r' % (tag, got, want))
                        break
                    t = ch['relay'][0]
                    if ch.get('unsubscribed') and not t.finished:
                        w.fail('relay_not_ended', 'relay', 'subscriber %s: relay thread still running after the unsubscribe acknowledgement' % tag)
                        break
                    continue
                got = [_norm(m, eventNames) for m in ch['reader'].got]
                want = ch['expected']
                if ch['closed_by_sub']:
                    # the subscriber closed its end at some moment: it holds a prefix of what was due
                    # up to the point where the dispatcher noticed
                    if got != want[:len(got)]:
                        w.fail(_kind(got, want[:len(got)]), 'closed_channel', 'subscriber %s read %r, not a prefix of %r' % (tag, got, want))
                        break
                    continue
                if got != want:
                    w.fail(_kind(got, want), 'break_after' if ch['break_after'] is not None else 'healthy',
                           'subscriber %s received %r, the model (global enqueue order) expects %r' % (tag, got, want))
                    break
                if any(not isinstance(m, str) for m in got):
                    w.probe('events_delivered')
        # ---- the dispatcher must still stop when asked ----------------------------------------------------------------------
        if alive and not w.hung:
            shutdown.set()
            w.run_until(lambda: th.finished, 5.0)
            if not th.finished and not w.failures:
                w.fail('dispatcher_no_stop', 'shutdown', 'dispatcher did not stop within 5 s of the shutdown flag')
            elif th.finished:
                w.probe('dispatcher_shutdown_clean')
        for ch in channels:
            if ch['relay'] is not None:
                ch['relay'][1].set()
            if ch['break_after'] is not None or ch['closed_by_sub']:
                nontrivial = True
        res.nontrivial = nontrivial
        res.features = g.features
        res.states = states
        res.scenario = {'npub': npub, 'nsub': nsub, 'enqueued': len(G),
                        'channels': [{'sub_id': ch['sub_id'], 'epoch': ch['epoch'], 'break_after': ch['break_after'],
                                      'closed_by_sub': ch['closed_by_sub'], 'relay': ch['relay'] is not None} for ch in channels]}
        from . import finish
        if w.hung:
            scen.hang_failure(w)
        return finish(res, w)


def _norm(m: Any, eventNames: Any) -> Any:
    n = m.get('event_name')
    if n == eventNames.SUBSCRIBED:
        return 'SUBSCRIBED'
    if n == eventNames.UNSUBSCRIBED:
        return 'UNSUBSCRIBED'
    if n == eventNames.DISPATCHER_SHUTDOWN:
        return 'SHUTDOWN'
    return (m['event_payload'].get('pub'), m['event_payload'].get('n'))


def _kind(got: List[Any], want: List[Any]) -> str:
    if len(set(map(repr, got))) != len(got):
        return 'duplicate_delivery'
    if sorted(map(repr, got)) == sorted(map(repr, want)):
        return 'reordered_delivery'
    if all(x in want for x in got):
        return 'lost_delivery'
    return 'unexpected_delivery'
