"""The virtual kernel and the seeded scheduler.

Everything that would live in the operating system lives here: per-process
descriptor tables, stream sockets with bounded buffers, listening sockets,
pipes, the clock, name resolution, and the scheduler that decides which
entity (sim thread or scripted actor) performs the next step.

One `World` is one simulated run.  No real socket, pipe, sleep or clock is
used; real Python threads are used only as coroutines (exactly one runs at a
time, hand-over happens at kernel calls only).
"""
import errno
import hashlib
import os
import sys
import time as _time
import heapq
import socket as _socket
import sys
import threading as _threading
import traceback
from collections import Counter
from typing import Any, Callable, Dict, List, Optional, Tuple

_RealThread = _threading.Thread
_RealSemaphore = _threading.Semaphore

FD_BASE = 1000
EPOCH = 1_700_000_000.0
SYSCALL_COST = 0.00005


class SimAbort(BaseException):
    """Raised inside sim threads to unwind them when a run ends."""


class HarnessError(Exception):
    """The simulator itself is broken / misused.  Never a verdict."""


class RunLimit(Exception):
    """Step / virtual-time cap hit."""


# ---------------------------------------------------------------------------
# open file descriptions
# ---------------------------------------------------------------------------

class OFD:
    kind = '?'

    def __init__(self) -> None:
        self.refs = 0
        self.label = ''

    def on_last_close(self, world: 'World') -> None:
        pass

    # readiness, overridden
    def poll(self) -> int:
        """bitmask: 1 IN, 2 OUT, 4 ERR, 8 HUP"""
        return 0


P_IN, P_OUT, P_ERR, P_HUP = 1, 2, 4, 8


class Stream(OFD):
    """One end of a connected byte stream (TCP-like)."""
    kind = 'stream'

    def __init__(self, world: 'World', rx_cap: int, label: str) -> None:
        super().__init__()
        self.world = world
        self.label = label
        self.peer: Optional['Stream'] = None
        self.rx = bytearray()
        self.rx_cap = max(1, rx_cap)
        self.fin_rcvd = False       # peer will send no more
        self.rst_rcvd = False       # connection reset by peer
        self.err: Optional[int] = None     # pending so_error (reported once)
        self.wr_shut = False
        self.closed = False
        self.faultable = False
        self.owner = 'proxy'
        self.family = _socket.AF_INET
        self.laddr: Any = ('0.0.0.0', 0)
        self.raddr: Any = ('0.0.0.0', 0)
        # accounting
        self.tx_total = 0
        self.rx_total = 0
        self.read_total = 0         # bytes the owner actually took out with recv()
        self.io_times: Optional[List[Tuple[float, str, int]]] = None
        self.on_data: Optional[Callable[[], None]] = None
        self.dead = False           # the connection no longer exists (reset seen, or closed both ways)
        self.t_end: Optional[float] = None      # first shutdown(WR) / close / reset by the owner
        self.on_end: Optional[Callable[['Stream'], None]] = None

    def _ended(self) -> None:
        if self.t_end is None:
            self.t_end = self.world.now
            if self.on_end is not None:
                self.on_end(self)

    # -- readiness -----------------------------------------------------
    def room(self) -> int:
        p = self.peer
        if p is None or p.closed:
            return 1 << 30
        return p.rx_cap - len(p.rx)

    def readable(self) -> bool:
        return bool(self.rx) or self.fin_rcvd or self.rst_rcvd or self.err is not None

    def writable(self) -> bool:
        if self.wr_shut or self.rst_rcvd or self.err is not None:
            return True
        return self.room() > 0

    def poll(self) -> int:
        m = 0
        if self.rx or self.fin_rcvd:
            m |= P_IN
        if self.rst_rcvd or self.err is not None:
            m |= P_IN | P_ERR | P_HUP
        if self.fin_rcvd and self.wr_shut:
            m |= P_HUP
        if self.writable():
            m |= P_OUT
        return m

    # -- primitives (never block) ---------------------------------------
    def k_send(self, data: Any) -> int:
        if self.closed:
            raise OSError(errno.EBADF, 'Bad file descriptor')
        if self.err is not None:
            e, self.err = self.err, None
            self.dead = True
            self.wr_shut = True
            if e == errno.EPIPE:
                raise BrokenPipeError(errno.EPIPE, 'Broken pipe')
            raise OSError(e, 'so_error')
        if self.rst_rcvd:
            # ECONNRESET is reported once, EPIPE afterwards
            self.rst_rcvd = False
            self.wr_shut = True
            self.fin_rcvd = True
            self.dead = True
            raise ConnectionResetError(errno.ECONNRESET, 'Connection reset by peer')
        if self.wr_shut:
            raise BrokenPipeError(errno.EPIPE, 'Broken pipe')
        n = len(data)
        if n == 0:
            return 0
        p = self.peer
        assert p is not None
        if p.closed:
            # the first write after the peer's close is accepted by the local
            # kernel, the peer answers RST: later writes fail with EPIPE.
            self.tx_total += n
            self.err = errno.EPIPE
            self.world.touch()
            return n
        room = p.rx_cap - len(p.rx)
        if room <= 0:
            raise BlockingIOError(errno.EAGAIN, 'Resource temporarily unavailable')
        k = n if n <= room else room
        p.rx += bytes(data[:k]) if not isinstance(data, (bytes, bytearray)) else data[:k]
        p.rx_total += k
        self.tx_total += k
        self.world.touch()
        if p.on_data is not None:
            p.on_data()
        return k

    def k_recv(self, n: int) -> bytes:
        if self.closed:
            raise OSError(errno.EBADF, 'Bad file descriptor')
        if self.rx:
            if n >= len(self.rx):
                out = bytes(self.rx)
                self.rx.clear()
            else:
                out = bytes(self.rx[:n])
                del self.rx[:n]
            self.read_total += len(out)
            self.world.touch()
            return out
        if self.fin_rcvd and not self.rst_rcvd:
            return b''
        if self.rst_rcvd:
            self.rst_rcvd = False
            self.fin_rcvd = True
            self.wr_shut = True
            self.dead = True
            raise ConnectionResetError(errno.ECONNRESET, 'Connection reset by peer')
        if self.err is not None:
            e, self.err = self.err, None
            self.fin_rcvd = True
            self.dead = True
            self.wr_shut = True
            if e == errno.EPIPE:
                raise BrokenPipeError(errno.EPIPE, 'Broken pipe')
            raise OSError(e, 'so_error')
        raise BlockingIOError(errno.EAGAIN, 'Resource temporarily unavailable')

    def k_shutdown_wr(self) -> None:
        if self.closed:
            raise OSError(errno.EBADF, 'Bad file descriptor')
        if self.rst_rcvd or self.dead or (self.peer is not None and self.peer.closed and self.err is not None) \
                or (self.wr_shut and self.fin_rcvd):
            # reset by the peer, or already closed in both directions: the connection is gone
            raise OSError(errno.ENOTCONN, 'Transport endpoint is not connected')
        if not self.wr_shut:
            self._ended()
            self.wr_shut = True
            p = self.peer
            if p is not None and not p.closed:
                p.fin_rcvd = True
                if p.on_data is not None:
                    p.on_data()
            self.world.touch()

    def k_reset(self) -> None:
        """Abortive close (RST)."""
        if self.closed:
            return
        self._ended()
        self.closed = True
        self.wr_shut = True
        p = self.peer
        if p is not None and not p.closed:
            p.rst_rcvd = True
            if p.on_data is not None:
                p.on_data()
        self.rx.clear()
        self.world.touch()

    def on_last_close(self, world: 'World') -> None:
        if self.closed:
            return
        self._ended()
        unread = bool(self.rx)
        self.closed = True
        p = self.peer
        if p is not None and not p.closed:
            if unread:
                # close() with unread input: peer sees a reset (after the data
                # it already has)
                p.rst_rcvd = True
            else:
                p.fin_rcvd = True
            if p.on_data is not None:
                p.on_data()
        self.wr_shut = True
        self.rx.clear()
        world.touch()


class Listener(OFD):
    kind = 'listener'

    def __init__(self, world: 'World', family: int, label: str) -> None:
        super().__init__()
        self.world = world
        self.family = family
        self.label = label
        self.addr: Any = None
        self.listening = False
        self.backlog_max = 0
        self.queue: List[Tuple[Stream, Any]] = []
        self.closed = False

    def poll(self) -> int:
        return P_IN if self.queue else 0

    def on_last_close(self, world: 'World') -> None:
        self.closed = True
        if self.addr is not None:
            key = world._bind_key(self.family, self.addr)
            if world.bound.get(key) is self:
                del world.bound[key]
        for st, _ in self.queue:
            st.k_reset()
        self.queue.clear()
        world.touch()


class PipeEnd(OFD):
    """One end of a duplex message pipe (multiprocessing.Connection)."""
    kind = 'pipe'

    def __init__(self, world: 'World', label: str) -> None:
        super().__init__()
        self.world = world
        self.label = label
        self.peer: Optional['PipeEnd'] = None
        self.q: List[Any] = []
        self.closed = False

    def poll(self) -> int:
        m = P_OUT
        if self.q or (self.peer is not None and self.peer.closed):
            m |= P_IN
        return m

    def on_last_close(self, world: 'World') -> None:
        self.closed = True
        world.touch()


# ---------------------------------------------------------------------------
# processes and threads
# ---------------------------------------------------------------------------

class Proc:
    def __init__(self, pid: int, name: str) -> None:
        self.pid = pid
        self.name = name
        self.fds: Dict[int, OFD] = {}
        self.alive = True
        self.closes_of_unopened: List[int] = []
        self.ever: set = set()
        self.reuse_count = 0

    def alloc(self, ofd: OFD) -> int:
        fd = FD_BASE
        fds = self.fds
        while fd in fds:
            fd += 1
        fds[fd] = ofd
        ofd.refs += 1
        if fd in self.ever:
            self.reuse_count += 1
        self.ever.add(fd)
        return fd


class SimThread:
    """Replacement for threading.Thread inside a simulation.

    A real thread is used as a coroutine: it only runs while it holds the
    baton.  Outside an active world it falls back to a plain real thread.
    """
    _counter = 0

    def __init__(self, group: Any = None, target: Any = None, name: Any = None,
                 args: Any = (), kwargs: Any = None, *, daemon: Any = None) -> None:
        self._target = target
        self._args = args
        self._kwargs = kwargs or {}
        self.name = name or 'SimThread'
        self._daemon = bool(daemon)
        self.world: Optional['World'] = None
        self._real: Optional[_RealThread] = None
        self._sem = _RealSemaphore(0)
        self.finished = False
        self.started = False
        self.exc: Optional[BaseException] = None
        self.exc_tb: str = ''
        self.cond: Optional[Callable[[], bool]] = None
        self.deadline: Optional[float] = None
        self.runnable = False
        self.timed_out = False
        self.proc: Optional[Proc] = None
        self.tid = 0
        self.is_driver = False
        self.waiting_on = ''

    # threading.Thread API ----------------------------------------------
    @property
    def daemon(self) -> bool:
        return self._daemon

    @daemon.setter
    def daemon(self, v: bool) -> None:
        self._daemon = bool(v)

    @property
    def ident(self) -> Optional[int]:
        return self.tid if self.started else None

    def is_alive(self) -> bool:
        return self.started and not self.finished

    def run(self) -> None:
        if self._target is not None:
            self._target(*self._args, **self._kwargs)

    def _new_proc(self, w: 'World') -> Proc:
        # plain thread: same process as its creator
        assert w.current is not None and w.current.proc is not None
        return w.current.proc

    def start(self) -> None:
        w = World.active
        if w is None:
            # no simulation: behave like a normal thread
            self._real = _RealThread(target=self.run, daemon=True, name=self.name)
            self.started = True
            self._real.start()
            return
        if self.started:
            raise RuntimeError('threads can only be started once')
        self.world = w
        self.proc = self._new_proc(w)
        w.next_tid += 1
        self.tid = w.next_tid
        self.started = True
        self.runnable = True
        self._real = _RealThread(target=self._bootstrap, daemon=True,
                                 name='sim-%s' % self.name)
        w.threads.append(self)
        w.ev(self._ename(), 'thread_start', w.current._ename() if w.current else '-')
        self._real.start()

    def _ename(self) -> str:
        return '%s#%d' % (self.name, self.tid)

    def _bootstrap(self) -> None:
        self._sem.acquire()
        w = self.world
        assert w is not None
        try:
            if w.aborting:
                raise SimAbort()
            self.run()
        except SimAbort:
            pass
        except BaseException as e:   # noqa
            self.exc = e
            self.exc_tb = _short_tb(e)
        finally:
            try:
                self._on_exit(w)
            except BaseException:   # noqa
                pass
            w._thread_exit(self)

    def _on_exit(self, w: 'World') -> None:
        pass

    def join(self, timeout: Optional[float] = None) -> None:
        w = self.world
        if w is None:
            if self._real is not None:
                self._real.join(timeout)
            return
        if self.finished:
            return
        w.block(cond=lambda: self.finished, timeout=timeout, what='join:%s' % self.name)


def _short_tb(e: BaseException) -> str:
    """innermost proxy/ frame: file:function:exctype — the crash signature."""
    tb = traceback.extract_tb(e.__traceback__)
    sig = ''
    for fr in tb:
        fn = fr.filename.replace('\\', '/')
        if '/proxy/' in fn:
            sig = '%s:%s' % (fn.split('/proxy/', 1)[1], fr.name)
    return '%s:%s' % (sig or '?', type(e).__name__)


class Actor:
    """Scripted peer.  Subclasses implement enabled()/step()."""
    name = 'actor'
    order = 0

    def enabled(self) -> bool:
        return False

    def step(self) -> None:
        pass

    def next_deadline(self) -> Optional[float]:
        return None


# ---------------------------------------------------------------------------
# the world
# ---------------------------------------------------------------------------

class World:
    active: Optional['World'] = None

    def __init__(self, tape: Any, *, step_cap: int = 200000, vtime_cap: float = 3600.0,
                 keep_log: int = 80, trace: bool = False) -> None:
        self.tape = tape
        self.now = 0.0
        self.seq = 0
        self.steps = 0
        self.step_cap = step_cap
        self._ev_step = -1
        self._ev_run = 0
        self.vtime_cap = vtime_cap
        self.threads: List[SimThread] = []
        self.actors: List[Actor] = []
        self.current: Optional[SimThread] = None
        self.driver = SimThread(name='driver')
        self.driver.is_driver = True
        self.driver.started = True
        self.driver.world = self
        self.next_pid = 100
        self.next_tid = 0
        self.procs: Dict[int, Proc] = {}
        self.main_proc = self.new_proc('main')
        self.driver.proc = self.main_proc
        self.current = self.driver
        self.aborting = False
        self.digest = hashlib.blake2b(digest_size=16)
        self.keep_log = keep_log
        self.log: List[str] = []
        self.trace = trace
        self.stats: Counter = Counter()
        self.last_progress = 0.0
        self.last_fault_time = -1.0
        # network
        self.bound: Dict[Any, Listener] = {}
        self.remote: Dict[Any, Any] = {}      # (host, port) -> behaviour object (actors' servers)
        self.dns: Dict[str, Any] = {}
        self.connect_log: List[Tuple[str, Any, str]] = []
        self.resolve_log: List[Tuple[str, Any, str]] = []
        self.ephemeral_next = 32768
        self.stream_seq = 0
        # faults
        self.fault_p = 0.0
        self.fault_kinds: Dict[str, List[str]] = {}
        self.fault_budget = 0
        self.preempt_p = 0.0
        self.timers: List[Tuple[float, int, Callable[[], None]]] = []
        self.aux_rng = tape.fork_rng('aux')
        self.closes_bad: List[Tuple[int, int, str]] = []
        self.spin_budget_s = float(os.environ.get('VERIF_SPIN_BUDGET_S', '6'))
        self.spin_sig = ''
        self.spin_chain: List[str] = []
        self.gc_closed_labels: List[str] = []
        self.hung = False
        self.deadlock = False
        self.failures: List[Tuple[str, str, str]] = []   # (oracle, signature, message)
        self.selectors: List[Any] = []
        self.rr = 0
        self.change_seq = 0
        self.in_actor = False
        self.long_tasks: List[Tuple[str, Any]] = []
        self.fault_hosts: set = set()
        self.select_hook: Optional[Callable[[Any], None]] = None
        self.shuffle_ready = False
        self.task_seq = 0
        self.pipe_seq = 0
        self.uuid_seq = 0
        self.scratch: Dict[str, Any] = {}

    # -- activation -----------------------------------------------------
    def __enter__(self) -> 'World':
        if World.active is not None:
            raise HarnessError('nested world')
        World.active = self
        return self

    def __exit__(self, *a: Any) -> None:
        try:
            self.abort_threads()
        finally:
            World.active = None

    # -- log / digest ----------------------------------------------------
    spin_calls = 20000       # kernel calls one simulated thread may make in a row without ever blocking or yielding

    def ev(self, ent: str, call: str, res: Any = '') -> None:
        self.seq += 1
        if self.steps != self._ev_step:
            self._ev_step, self._ev_run = self.steps, 0
        self._ev_run += 1
        if self._ev_run > self.spin_calls and not self.spin_sig and not self.in_actor and self.current is not None \
                and not self.current.is_driver and _threading.current_thread() is self.current._real:
            # an endless loop around a kernel call that keeps returning at once (send() -> EAGAIN, ...): no other simulated
            # thread can ever run again.  Decided by count, not by the clock, so that the run replays exactly.
            fr = sys._getframe(1)
            chain = []
            while fr is not None:
                fn = fr.f_code.co_filename
                if '/proxy/' in fn and '/sim/' not in fn:
                    chain.append('%s:%s' % (fn.split('/proxy/', 1)[1], fr.f_code.co_name))
                fr = fr.f_back
            self.spin_sig = chain[0] if chain else 'unknown'
            self.spin_chain = chain[:6]
            self.spin_by_calls = True
            self.hung = True
            self.aborting = True
            raise SimAbort()
        line = '%d|%.6f|%s|%s|%s' % (self.seq, self.now, ent, call, res)
        self.digest.update(line.encode('utf-8', 'backslashreplace'))
        if len(self.log) < self.keep_log:
            self.log.append(line)
        if self.trace:
            sys.stderr.write(line + '\n')

    def hexdigest(self) -> str:
        return self.digest.hexdigest()

    def touch(self) -> None:
        self.last_progress = self.now
        self.change_seq += 1

    stop_on_failure = True

    def fail(self, oracle: str, signature: str, message: str) -> None:
        """Record an oracle failure (first one wins for reporting)."""
        self.failures.append((oracle, signature, message))
        self.ev('oracle', oracle, signature)

    def probe(self, name: str) -> None:
        self.stats['probe:' + name] += 1

    # -- processes -------------------------------------------------------
    def new_proc(self, name: str, parent: Optional[Proc] = None) -> Proc:
        self.next_pid += 1
        p = Proc(self.next_pid, name)
        self.procs[p.pid] = p
        if parent is not None:
            # fork(): the child inherits every descriptor
            for fd, ofd in parent.fds.items():
                p.fds[fd] = ofd
                ofd.refs += 1
        return p

    def cur_proc(self) -> Proc:
        assert self.current is not None and self.current.proc is not None
        return self.current.proc

    def proc_exit(self, p: Proc) -> None:
        if not p.alive:
            return
        p.alive = False
        for fd in sorted(p.fds):
            self._drop(p, fd)

    def _drop(self, p: Proc, fd: int) -> None:
        ofd = p.fds.pop(fd)
        ofd.refs -= 1
        if ofd.refs == 0:
            ofd.on_last_close(self)

    def fd_close(self, fd: int, who: str = '') -> None:
        p = self.cur_proc()
        if fd not in p.fds:
            self.closes_bad.append((p.pid, fd, who))
            self.ev(self.ename(), 'close', 'EBADF fd=%d' % fd)
            raise OSError(errno.EBADF, 'Bad file descriptor')
        self.ev(self.ename(), 'close', 'fd=%d %s' % (fd, p.fds[fd].label))
        self._drop(p, fd)

    def fd_dup(self, fd: int) -> int:
        p = self.cur_proc()
        if fd not in p.fds:
            raise OSError(errno.EBADF, 'Bad file descriptor')
        n = p.alloc(p.fds[fd])
        self.ev(self.ename(), 'dup', '%d->%d' % (fd, n))
        return n

    def fd_get(self, fd: int) -> OFD:
        p = self.cur_proc()
        o = p.fds.get(fd)
        if o is None:
            raise OSError(errno.EBADF, 'Bad file descriptor')
        return o

    def open_fd_count(self, p: Optional[Proc] = None) -> int:
        return len((p or self.main_proc).fds)

    # -- streams ---------------------------------------------------------
    def stream_pair(self, cap_a: int, cap_b: int, label_a: str, label_b: str) -> Tuple[Stream, Stream]:
        a = Stream(self, cap_a, label_a)
        b = Stream(self, cap_b, label_b)
        a.peer, b.peer = b, a
        self.stream_seq += 1
        return a, b

    def _bind_key(self, family: int, addr: Any) -> Any:
        if family == _socket.AF_UNIX:
            return ('unix', addr)
        return (addr[0], addr[1])

    # -- scheduler -------------------------------------------------------
    def ename(self) -> str:
        c = self.current
        return c._ename() if c is not None else '-'

    def syscall(self) -> None:
        """Account for one kernel call of the current thread; optional
        pre-emption point."""
        if self.aborting:
            c = self.current
            if c is not None and not c.is_driver:
                raise SimAbort()
        if self.in_actor:
            return
        self.now += SYSCALL_COST
        if self.preempt_p and (self.actors or len(self.threads) > 1):
            c = self.current
            if c is not None and not c.is_driver and self.tape.coin(self.preempt_p, 'preempt'):
                self.stats['preempt'] += 1
                self.block(None, None, 'yield')

    def add_timer(self, when: float, fn: Callable[[], None]) -> None:
        self.seq += 1
        heapq.heappush(self.timers, (when, self.seq, fn))

    def _enabled(self, exclude: Optional[SimThread]) -> List[Any]:
        out: List[Any] = []
        now = self.now
        for t in self.threads:
            if t.finished or t is exclude:
                continue
            if t.runnable:
                out.append(t)
            elif t.cond is not None and t.cond():
                out.append(t)
            elif t.deadline is not None and t.deadline <= now:
                out.append(t)
        for a in self.actors:
            if a.enabled():
                out.append(a)
        return out

    def _next_deadline(self) -> Optional[float]:
        nd: Optional[float] = None
        for t in self.threads:
            if t.finished:
                continue
            if t.deadline is not None and (nd is None or t.deadline < nd):
                nd = t.deadline
        d = self.driver
        if d.deadline is not None and (nd is None or d.deadline < nd):
            nd = d.deadline
        for a in self.actors:
            x = a.next_deadline()
            if x is not None and (nd is None or x < nd):
                nd = x
        if self.timers:
            x = self.timers[0][0]
            if nd is None or x < nd:
                nd = x
        return nd

    def _driver_ready(self) -> bool:
        d = self.driver
        if d.runnable:
            return True
        if d.cond is not None and d.cond():
            return True
        if d.deadline is not None and d.deadline <= self.now:
            return True
        return False

    def _pick(self, me: Optional[SimThread]) -> Any:
        """Decide who runs next.  Runs actor steps and timers inline; returns
        the SimThread that must run next (possibly `me`)."""
        while True:
            self.steps += 1
            if self.steps > self.step_cap or self.now > self.vtime_cap:
                self.hung = True
                self.driver.runnable = True
                return self.driver
            while self.timers and self.timers[0][0] <= self.now:
                _, _, fn = heapq.heappop(self.timers)
                fn()
            if self._driver_ready():
                return self.driver
            en = self._enabled(None)
            if not en:
                nd = self._next_deadline()
                if nd is None:
                    # nothing can ever happen again
                    self.deadlock = True
                    self.driver.runnable = True
                    return self.driver
                if nd > self.now:
                    self.now = nd
                continue
            if len(en) > 1:
                # draw 0 = next in round-robin order, so that an exhausted or
                # zeroed tape still schedules fairly
                self.rr += 1
                ent = en[(self.tape.draw(len(en), 'sched') + self.rr) % len(en)]
            else:
                ent = en[0]
            if isinstance(ent, Actor):
                self.ev(ent.name, 'step', '')
                self.in_actor = True
                try:
                    ent.step()
                finally:
                    self.in_actor = False
                continue
            return ent

    def block(self, cond: Optional[Callable[[], bool]] = None,
              timeout: Optional[float] = None, what: str = '') -> bool:
        """Yield point of the current thread.  Returns True if the condition
        held (or pure yield), False on timeout."""
        me = self.current
        assert me is not None
        if self.in_actor:
            raise HarnessError('actor step tried to block (%s)' % what)
        if self.aborting and not me.is_driver:
            raise SimAbort()
        if cond is None and timeout is None:
            me.runnable = True
        else:
            me.runnable = False
            me.cond = cond
            me.deadline = None if timeout is None else self.now + timeout
        me.waiting_on = what
        t_block = self.now
        nxt = self._pick(me)
        if nxt is not me:
            self._switch(me, nxt)
        # resumed
        if what in ('connect', 'send', 'recv'):
            # time this thread spent inside a blocking socket call (e.g. a 10 s connect timeout)
            me.blocked_total = getattr(me, 'blocked_total', 0.0) + (self.now - t_block)
        ok = True
        if not me.runnable:
            ok = bool(me.cond is not None and me.cond())
        me.runnable = False
        me.cond = None
        me.deadline = None
        me.waiting_on = ''
        return ok

    def _switch(self, me: SimThread, nxt: SimThread) -> None:
        self.current = nxt
        nxt._sem.release()
        if me.is_driver and self.spin_budget_s:
            # The driver is parked here while the simulated threads pass the baton among themselves.  If no scheduler
            # step happens for spin_budget_s *real* seconds, the running thread is executing code that never reaches a
            # kernel call that yields (an endless loop in the code under test, possibly around a call that keeps failing at
            # once, like send() -> EAGAIN): unwind it and end the run as hung.
            last, t_last = self.steps, _time.monotonic()
            while not me._sem.acquire(timeout=0.2):
                cur = self.steps
                if cur != last:
                    last, t_last = cur, _time.monotonic()
                elif _time.monotonic() - t_last > self.spin_budget_s and not self.spin_sig:
                    self._kill_spinner()
        else:
            me._sem.acquire()
        if self.aborting and not me.is_driver:
            raise SimAbort()

    def _kill_spinner(self) -> None:
        import ctypes
        t = self.current
        if t is None or t.is_driver or t._real is None or t._real.ident is None:
            return
        # Sample the spinning thread's stack a few times: the frames that stay are the loop's own frame and its callers; the
        # deepest of them names the loop (what is below it varies from sample to sample and would make a poor signature).
        samples = []
        for _ in range(25):
            fr = sys._current_frames().get(t._real.ident)
            ch = []
            while fr is not None:
                fn = fr.f_code.co_filename
                if '/proxy/' in fn and '/sim/' not in fn:
                    ch.append('%s:%s' % (fn.split('/proxy/', 1)[1], fr.f_code.co_name))
                fr = fr.f_back
            samples.append(list(reversed(ch)))       # outermost first
            _threading.Event().wait(0.008)        # a real pause (time.sleep is simulated in this process)
        common = samples[0]
        for ch in samples[1:]:
            k = 0
            while k < len(common) and k < len(ch) and common[k] == ch[k]:
                k += 1
            common = common[:k]
        sig = 'unknown'
        chain = list(reversed(common))
        if chain:
            sig = chain[0]
        self.spin_sig = sig
        self.spin_chain = chain[:6]
        self.hung = True
        self.aborting = True
        ctypes.pythonapi.PyThreadState_SetAsyncExc(ctypes.c_ulong(t._real.ident), ctypes.py_object(SimAbort))

    def _thread_exit(self, t: SimThread) -> None:
        t.finished = True
        t.runnable = False
        t.cond = None
        t.deadline = None
        self.ev(t._ename(), 'thread_exit', type(t.exc).__name__ if t.exc else '')
        if self.aborting:
            # hand the baton straight back to the driver
            self.current = self.driver
            self.driver._sem.release()
            return
        nxt = self._pick(None)
        self.current = nxt
        nxt._sem.release()

    def sleep(self, dt: float, what: str = 'sleep') -> None:
        if dt <= 0:
            self.block(None, None, what)
        else:
            self.block(None, dt, what)

    # -- driver API -------------------------------------------------------
    def run_until(self, cond: Callable[[], bool], timeout: Optional[float] = None) -> bool:
        """Called by the driver (main thread): let the world run until cond."""
        assert self.current is self.driver
        return self.block(cond, timeout, 'driver')

    def run_for(self, dt: float) -> None:
        assert self.current is self.driver
        self.block(None, dt, 'driver')

    def settle(self, quiet: float, max_wait: float) -> bool:
        """Run until no progress (data movement / actor step) has happened for
        `quiet` virtual seconds, at most max_wait.  True if it got quiet."""
        end = self.now + max_wait
        while self.now < end and not self.hung and not self.deadlock:
            if self.failures and self.stop_on_failure:
                return False
            if self._busy():
                # pending work that does not show as data movement counts as progress
                self.last_progress = self.now
            target = self.last_progress + quiet
            if self.now >= target:
                return True
            self.block(None, max(min(target, end) - self.now, 0.001), 'settle')
        return self.now >= self.last_progress + quiet and not self._busy()

    def _busy(self) -> bool:
        """Something is still pending that does not show as data movement: an
        actor that can act or sleeps towards a deadline, or a sim thread parked
        inside a blocking connect/send/recv (e.g. a 10 s connect timeout)."""
        for a in self.actors:
            if a.enabled() or a.next_deadline() is not None:
                return True
        for t in self.threads:
            if not t.finished and t.waiting_on in ('connect', 'send', 'recv', 'lock'):
                return True
        return False

    def abort_threads(self) -> None:
        """Unwind every sim thread that is still alive."""
        if self.current is not self.driver:
            return
        self.aborting = True
        for t in list(self.threads):
            if t.finished or t._real is None:
                continue
            self.current = t
            t._sem.release()
            # wait for it to hand the baton back (with a real-time guard)
            if not self.driver._sem.acquire(timeout=10):
                raise HarnessError('thread %s did not unwind' % t.name)
            self.current = self.driver
        for t in self.threads:
            if t._real is not None:
                t._real.join(timeout=5)

    # -- faults -----------------------------------------------------------
    def fault(self, site: str, st: Optional[Stream]) -> Optional[str]:
        """Maybe pick a fault for this call site.  Only for faultable streams,
        only kinds enabled for this run, within the run's fault budget."""
        if not self.fault_p or self.fault_budget <= 0:
            return None
        if st is not None and not st.faultable:
            return None
        kinds = self.fault_kinds.get(site)
        if not kinds:
            return None
        if not self.tape.coin(self.fault_p, 'fault?' + site):
            return None
        k = kinds[self.tape.draw(len(kinds), 'faultkind')]
        self.fault_budget -= 1
        self.stats['fault:' + k] += 1
        self.last_fault_time = self.now
        self.ev(self.ename(), 'FAULT', '%s@%s' % (k, site))
        return k


# ---------------------------------------------------------------------------
# network: connect / resolve (methods added to World)
# ---------------------------------------------------------------------------

class Remote:
    """Behaviour of a (host, port) the proxy may connect to."""

    def __init__(self, mode: str = 'accept', on_connect: Optional[Callable[[Stream, Any], None]] = None,
                 cap_in: int = 65536, cap_out: int = 65536, latency: float = 0.0,
                 name: str = '') -> None:
        self.mode = mode            # accept | refuse | blackhole | hostunreach | netunreach | reset
        self.on_connect = on_connect
        self.cap_in = cap_in        # capacity of the server's receive queue
        self.cap_out = cap_out      # capacity of the proxy-side receive queue
        self.latency = latency
        self.name = name
        self.accepted = 0
        self.faultable = False


def _is_ip(host: str) -> int:
    import ipaddress
    try:
        return ipaddress.ip_address(host).version
    except ValueError:
        return 0


def _ephemeral_port(self: World, host: str) -> int:
    used = {k[1] for k in self.bound if k[0] != 'unix'}
    base = 32768 + self.tape.draw(64, 'ephemeral')
    while base in used:
        base += 1
    return base


def _resolve(self: World, host: Any, port: Any, family: int = 0, type: int = 0) -> List[Any]:
    if isinstance(host, bytes):
        host = host.decode('idna')
    f = self.fault('getaddrinfo', None) if host in self.fault_hosts else None
    if f is not None:
        code = getattr(_socket, f)
        self.resolve_log.append((host, port, f))
        self.ev(self.ename(), 'getaddrinfo', '%s %s(f)' % (host, f))
        raise _socket.gaierror(code, 'injected %s' % f)
    out: List[str] = []
    v = _is_ip(host) if isinstance(host, str) else 0
    if v:
        out = [host]
    elif not isinstance(host, str) or host == '' or host.startswith('[') or \
            any(c in host for c in ' /\\@#?%:'):
        self.resolve_log.append((host, port, 'EAI_NONAME'))
        self.ev(self.ename(), 'getaddrinfo', '%r EAI_NONAME' % (host,))
        raise _socket.gaierror(_socket.EAI_NONAME, 'Name or service not known')
    else:
        try:
            key = host.encode('idna').decode('ascii').lower()
        except UnicodeError:
            self.resolve_log.append((host, port, 'EAI_NONAME'))
            raise _socket.gaierror(_socket.EAI_NONAME, 'Name or service not known')
        ent = self.dns.get(key, self.dns.get(host))
        if ent is None:
            self.resolve_log.append((host, port, 'EAI_NONAME'))
            self.ev(self.ename(), 'getaddrinfo', '%s EAI_NONAME' % host)
            raise _socket.gaierror(_socket.EAI_NONAME, 'Name or service not known')
        if isinstance(ent, str):
            code = getattr(_socket, ent)
            self.resolve_log.append((host, port, ent))
            self.ev(self.ename(), 'getaddrinfo', '%s %s' % (host, ent))
            raise _socket.gaierror(code, ent)
        out = list(ent)
    res = []
    for ip in out:
        fam = _socket.AF_INET6 if ':' in ip else _socket.AF_INET
        if family not in (0, fam):
            continue
        # glibc truncates a numeric service to 16 bits (htons)
        pn = int(port or 0) & 0xffff
        sa: Any = (ip, pn, 0, 0) if fam == _socket.AF_INET6 else (ip, pn)
        res.append((fam, _socket.SOCK_STREAM, 6, '', sa))
    self.resolve_log.append((host, port, 'ok'))
    self.ev(self.ename(), 'getaddrinfo', '%s -> %s' % (host, ','.join(out)))
    if not res:
        raise _socket.gaierror(_socket.EAI_ADDRFAMILY if hasattr(_socket, 'EAI_ADDRFAMILY') else -9,
                               'Address family for hostname not supported')
    return res


def _net_connect(self: World, family: int, host: Any, port: int, timeout: Optional[float]) -> Stream:
    if isinstance(host, bytes):
        host = host.decode()
    v = _is_ip(host)
    if not v:
        # connect() with a name: the C layer resolves it
        infos = self.resolve(host, port, family)
        host = infos[0][4][0]
        v = _is_ip(host)
    if (v == 6) != (family == _socket.AF_INET6):
        self.connect_log.append((host, port, 'EAFNOSUPPORT'))
        raise _socket.gaierror(-9, 'Address family for hostname not supported')
    if v == 6:
        # the kernel sees the binary address: every spelling of a literal is the same peer
        import ipaddress
        host = ipaddress.ip_address(host).compressed
    if not isinstance(port, int) or not (0 <= port <= 65535):
        raise OverflowError('connect(): port must be 0-65535.')
    who = self.ename()

    def done(outcome: str) -> None:
        self.connect_log.append((host, port, outcome))
        self.ev(who, 'connect', '%s:%s %s' % (host, port, outcome))

    r0: Optional[Remote] = self.remote.get((host, port))
    f = self.fault('connect', None) if (r0 is not None and r0.faultable) else None
    if f is not None:
        done(f + '(f)')
        e = getattr(errno, f)
        if e == errno.ETIMEDOUT:
            self.block(None, timeout if timeout else 127.0, 'connect')
            if timeout:
                raise _socket.timeout('timed out')
        raise OSError(e, __import__('os').strerror(e))
    # listeners bound inside the simulation (the proxy's own)
    lst = self.bound.get((host, port))
    if lst is None:
        wild = '::' if v == 6 else '0.0.0.0'
        lst = self.bound.get((wild, port))
    if lst is not None and lst.listening and not lst.closed:
        if len(lst.queue) >= lst.backlog_max:
            done('backlog-full')
            raise ConnectionRefusedError(errno.ECONNREFUSED, 'Connection refused')
        a, b = self.stream_pair(65536, 65536, 'loop:c', 'loop:s')
        a.laddr = (host, self.ephemeral_port(host))
        a.raddr = (host, port)
        b.laddr = (host, port)
        b.raddr = a.laddr
        lst.queue.append((b, a.laddr))
        done('ok')
        return a
    r: Optional[Remote] = self.remote.get((host, port))
    if r is None or r.mode == 'refuse':
        if r is not None and r.latency:
            self.block(None, r.latency, 'connect')
        done('ECONNREFUSED')
        raise ConnectionRefusedError(errno.ECONNREFUSED, 'Connection refused')
    if r.mode == 'blackhole':
        done('blackhole')
        self.block(None, timeout if timeout else 127.0, 'connect')
        if timeout:
            raise _socket.timeout('timed out')
        raise TimeoutError(errno.ETIMEDOUT, 'Connection timed out')
    if r.mode == 'hostunreach':
        if r.latency:
            self.block(None, r.latency, 'connect')
        done('EHOSTUNREACH')
        raise OSError(errno.EHOSTUNREACH, 'No route to host')
    if r.mode == 'netunreach':
        done('ENETUNREACH')
        raise OSError(errno.ENETUNREACH, 'Network is unreachable')
    if r.latency:
        if timeout is not None and timeout > 0 and r.latency > timeout:
            done('timeout')
            self.block(None, timeout, 'connect')
            raise _socket.timeout('timed out')
        self.block(None, r.latency, 'connect')
    r.accepted += 1
    lbl = '%s:%s#%d' % (r.name or host, port, r.accepted)
    a, b = self.stream_pair(r.cap_out, r.cap_in, 'up:' + lbl, 'origin:' + lbl)
    a.laddr = ('127.0.0.1' if v == 4 else '::1', 40000 + self.stream_seq)
    a.raddr = (host, port)
    b.laddr = (host, port)
    b.raddr = a.laddr
    b.owner = 'actor'
    a.faultable = r.faultable
    done('ok')
    if r.mode == 'reset':
        b.k_reset()
    elif r.on_connect is not None:
        r.on_connect(b, a.laddr)
    return a


def _actor_connect(self: World, host: str, port: Any, cap_to_proxy: int = 65536,
                   cap_to_client: int = 65536, label: str = 'client') -> Optional[Stream]:
    """An actor connects to a listener bound inside the simulation.
    Returns the actor-side stream, or None if refused."""
    key: Any = ('unix', host) if port is None else (host, port)
    shown = host if port is not None else __import__('os').path.basename(host)
    lst = self.bound.get(key)
    if lst is None and port is not None:
        wild = '::' if ':' in host else '0.0.0.0'
        lst = self.bound.get((wild, port))
    if lst is None or not lst.listening or lst.closed or len(lst.queue) >= lst.backlog_max:
        self.ev(label, 'connect', '%s:%s refused' % (shown, port))
        return None
    self.stream_seq += 1
    a, b = self.stream_pair(cap_to_client, cap_to_proxy, label + ':a', label + ':p')
    a.owner = 'actor'
    caddr = ('127.0.0.1' if ':' not in host else '::1', 50000 + self.stream_seq)
    a.laddr, a.raddr = caddr, (host, port)
    b.laddr, b.raddr = (host, port), caddr
    b.family = lst.family
    lst.queue.append((b, caddr))
    self.ev(label, 'connect', '%s:%s ok' % (shown, port))
    self.touch()
    return a


World.ephemeral_port = _ephemeral_port      # type: ignore[attr-defined]
World.resolve = _resolve                    # type: ignore[attr-defined]
World.net_connect = _net_connect            # type: ignore[attr-defined]
World.actor_connect = _actor_connect        # type: ignore[attr-defined]
