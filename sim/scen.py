"""Helpers shared by the per-property scenario generators."""
import gc
from typing import Any, Callable, Dict, List, Optional, Tuple

from .kernel import World
from .props import Gen, Result, finish

CAPS = [65536, 1024, 64, 7, 2, 1]          # index 0 = simplest
KNOBS = [0, 65536, 1024, 64, 7, 2, 1]      # 0 = repository default


def pick_cap(tape: Any, floor: int = 1, label: str = 'cap') -> int:
    c = CAPS[tape.weighted([4, 2, 2, 2, 1, 1], label)]
    return max(c, floor)


def pick_knob(tape: Any, floor: int = 1, label: str = 'knob') -> int:
    k = KNOBS[tape.weighted([4, 1, 2, 2, 2, 1, 1], label)]
    if k == 0:
        return 0
    return max(k, floor)


def unit_floor(total_bytes: int, max_units: int = 4000) -> int:
    """Smallest buffer / chunk size that keeps a run within ~max_units moves."""
    if total_bytes <= max_units:
        return 1
    f = 1
    while total_bytes // f > max_units:
        f *= 2
    return f


def proxy_opts(tape: Any, floor: int = 1) -> Dict[str, Any]:
    o: Dict[str, Any] = {}
    a = pick_knob(tape, floor, 'client_recvbuf')
    b = pick_knob(tape, floor, 'server_recvbuf')
    c = pick_knob(tape, floor, 'max_sendbuf')
    if a:
        o['client_recvbuf_size'] = a
    if b:
        o['server_recvbuf_size'] = b
    if c:
        o['max_sendbuf_size'] = c
    return o


def setup_faults(w: World, tape: Any, kinds: Dict[str, List[str]], p_on: float = 0.75,
                 budget: int = 200) -> bool:
    """Swarm: a quarter of the runs inject nothing."""
    if not tape.coin(p_on, 'faults-on'):
        return False
    w.fault_p = [0.02, 0.1, 0.3][tape.draw(3, 'fault-rate')]
    # independent on/off per kind
    en: Dict[str, List[str]] = {}
    for site, ks in sorted(kinds.items()):
        sel = [k for k in ks if tape.coin(0.6, 'fk:' + k)]
        if sel:
            en[site] = sel
    w.fault_kinds = en
    w.fault_budget = budget
    return bool(en)


def sched_swarm(w: World, tape: Any) -> None:
    w.preempt_p = [0.0, 0.0, 0.05, 0.3][tape.draw(4, 'preempt')]
    w.shuffle_ready = tape.coin(0.5, 'shuffle')


def body_bytes(tape: Any, n: int, label: str = 'body') -> bytes:
    kind = tape.draw(4, label + '-kind')
    if kind == 0:
        return tape.bytes(n, b'abcdefghij', label)
    if kind == 1:
        return tape.bytes(n, None, label)
    if kind == 2:
        # looks like HTTP
        unit = b'HTTP/1.1 200 OK\r\nContent-Length: 3\r\n\r\nabc0\r\n\r\nGET / HTTP/1.1\r\n\r\n'
        s = (unit * (n // len(unit) + 1))[:n]
        return s
    return tape.bytes(n, b'\r\n\x00\xff 0:;', label)


def size(tape: Any, small_max: int, big_max: int, label: str = 'size') -> int:
    k = tape.weighted([2, 5, 2, 1], label + '-class')
    if k == 0:
        return tape.draw(4, label)
    if k == 1:
        return tape.draw(small_max + 1, label)
    if k == 2:
        return tape.draw(min(big_max, small_max * 16) + 1, label)
    return tape.draw(big_max + 1, label)


def executor_check(w: World, h: Any, res: Optional[Result] = None) -> None:
    """The worker must still be looping; an exception that escaped it is a
    violation whose signature is the raising frame."""
    if w.spin_sig:
        return      # the worker was unwound by the spin watchdog; end_run reports it as cpu_spin
    if h.thread.finished:
        sig = h.thread.exc_tb or 'exited'
        msg = 'executor thread ended: %r' % (h.thread.exc,)
        from .kernel import _short_tb
        for qn, task in w.long_tasks:
            if qn.endswith('_run_forever') and task.done() and not task.cancelled():
                e = task.exception()
                if e is not None:
                    sig = _short_tb(e)
                    msg = 'exception escaped the executor loop: %r' % (e,)
        w.fail('executor_died', sig, msg)


def hang_failure(w: World) -> None:
    if w.spin_sig:
        how = ('made more than %d kernel calls in a row' % w.spin_calls if getattr(w, 'spin_by_calls', False)
               else 'ran for more than %.0f real seconds' % w.spin_budget_s)
        w.failures.insert(0, ('cpu_spin', w.spin_sig, 'a simulated thread %s without ever blocking or yielding: endless loop in %s'
                              % (how, ' <- '.join(w.spin_chain))))
    else:
        w.fail('hang', 'step-or-time-cap', 'run hit the step / virtual-time cap (steps=%d now=%.1f)' % (w.steps, w.now))


def end_run(w: World, h: Any, res: Result, shared_check: bool = False) -> Result:
    if w.hung:
        hang_failure(w)
    if hasattr(h, 'stop') and not w.hung:
        if h.alive():
            if not h.stop():
                w.fail('no_stop', 'executor', 'executor did not stop when asked')
    if shared_check:
        shared_state_check(w)       # after the executor has shut its remaining works down: that, too, is part of this run
    return finish(res, w)


_SHARED: Dict[str, bytes] = {}


def _shared_views() -> Dict[str, Any]:
    import sys
    cur: Dict[str, Any] = {}
    for mname in sorted(m for m in sys.modules if m == 'proxy' or m.startswith('proxy.')):
        mod = sys.modules.get(mname)
        for name, val in sorted(getattr(mod, '__dict__', {}).items()):
            if isinstance(val, memoryview):
                cur['%s.%s' % (mname, name)] = val
    return cur


def shared_state_begin() -> None:
    """Snapshot the objects every connection of a process shares (module-level memoryviews of proxy.*: the canned
    response packets) before a run touches them."""
    import proxy.http.handler, proxy.http.proxy.server, proxy.http.server.web, proxy.http.server.reverse  # noqa: F401,E401
    import proxy.http.responses, proxy.core.base  # noqa: F401,E401
    for key, mv in _shared_views().items():
        if key not in _SHARED:
            try:
                _SHARED[key] = mv.tobytes()
            except ValueError:
                pass


def shared_state_check(w: World) -> None:
    """... and they must come out of the run as they went in: still usable, same bytes.  A damaged object is reported by the
    run that damaged it and then replaced by a fresh copy of the snapshot, so that the process is again what a fresh process
    would be (the run replays in this process and in another one alike)."""
    import sys
    repaired: Dict[int, Any] = {}
    for key, mv in _shared_views().items():
        try:
            now: Optional[bytes] = mv.tobytes()
        except ValueError:
            now = None
        if key not in _SHARED:
            # an alias in a module imported during the run: the object's home is proxy.http.responses
            home = _SHARED.get('proxy.http.responses.' + key.rsplit('.', 1)[1])
            if now is not None or home is None:
                if now is not None:
                    _SHARED[key] = now
                continue
            _SHARED[key] = home
        if now == _SHARED[key]:
            continue
        if not w.failures:
            if now is None:
                w.fail('shared_state_poisoned', 'released', 'the shared object %s (used by every connection of the process) '
                       'was released during this run: later connections that need it will fail' % key)
            else:
                w.fail('shared_state_poisoned', 'modified', 'the shared object %s changed during this run (%r -> %r)'
                       % (key, _SHARED[key][:40], now[:40]))
        mname, name = key.rsplit('.', 1)
        if id(mv) not in repaired:
            repaired[id(mv)] = memoryview(_SHARED[key])
        setattr(sys.modules[mname], name, repaired[id(mv)])


def real_fds_under(prefix: str) -> List[str]:
    """Real (not simulated) descriptors of this process that refer to files below `prefix`: files the code under test
    opened with the real open()/os.open() and has not closed."""
    import os
    out = []
    try:
        names = os.listdir('/proc/self/fd')
    except OSError:
        return []
    for n in names:
        try:
            tgt = os.readlink('/proc/self/fd/' + n)
        except OSError:
            continue
        if tgt.startswith(prefix):
            out.append(tgt[len(prefix):] or '/')
    return sorted(out)
