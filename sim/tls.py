"""TLS in the simulation: real OpenSSL (ssl.MemoryBIO / SSLObject) carried over simulated sockets.

* SimTLSSocket  -- what ssl.SSLContext.wrap_socket() returns inside a simulation worker
                   (installed as ssl.SSLContext.sslsocket_class).  It is an ssl.SSLSocket *and* a SimSocket:
                   TLS records cross the simulated network and are segmented / partially written like any
                   other bytes.  Reads pull exactly one record at a time from the transport (OpenSSL without
                   read-ahead); a write whose record cannot be pushed out completely raises SSLWantWriteError and
                   must be retried, like SSL_write on a non-blocking socket.
* TLSLayer      -- the same for scripted peers (actors): a state machine around an SSLObject.
* fixtures()    -- test PKI made with the openssl binary (real subprocesses, outside any World).
"""
import os
import ssl
import subprocess
from typing import Any, Dict, List, Optional

from .sockets import SimSocket

RECORD_MAX = 16384


def _want_read() -> ssl.SSLWantReadError:
    return ssl.SSLWantReadError(ssl.SSL_ERROR_WANT_READ, 'The operation did not complete (read)')


def _want_write() -> ssl.SSLWantWriteError:
    return ssl.SSLWantWriteError(ssl.SSL_ERROR_WANT_WRITE, 'The operation did not complete (write)')


class SimTLSSocket(SimSocket, ssl.SSLSocket):      # type: ignore[misc]
    """ssl.SSLSocket over a SimSocket transport."""

    @classmethod
    def _create(cls, sock: Any, server_side: bool = False, do_handshake_on_connect: bool = True,
                suppress_ragged_eofs: bool = True, server_hostname: Optional[str] = None,
                context: Any = None, session: Any = None) -> 'SimTLSSocket':
        if not isinstance(sock, SimSocket):
            raise TypeError('SimTLSSocket wraps simulated sockets only')
        if server_side and server_hostname:
            raise ValueError('server_hostname can only be specified in client mode')
        if context.check_hostname and not server_hostname and not server_side:
            raise ValueError('check_hostname requires server_hostname')
        self = cls.__new__(cls)
        timeout = sock.gettimeout()
        SimSocket.__init__(self, sock.family, sock.type, sock.proto, fileno=sock.fileno())
        self._spid = sock._spid
        sock.detach()
        self._stimeout = timeout
        self._sctx = context
        self._inc = ssl.MemoryBIO()
        self._outb = ssl.MemoryBIO()
        self._obj = context.wrap_bio(self._inc, self._outb, server_side=server_side,
                                     server_hostname=server_hostname, session=session)
        self._sslobj = self._obj
        self._raw = bytearray()         # transport bytes not yet forming a whole record
        self._cipher = bytearray()      # ciphertext not yet accepted by the transport
        self._pend_plain = 0            # plaintext length of the record(s) pending in _cipher
        self._tls_server_side = server_side
        self._tls_hostname = server_hostname
        self._suppress_ragged = suppress_ragged_eofs
        self._connected = True
        self._tls_eof = False
        if do_handshake_on_connect:
            # like ssl.SSLSocket._create: a failing handshake closes the socket before the error propagates
            try:
                if timeout == 0.0:
                    raise ValueError('do_handshake_on_connect should not be specified for non-blocking sockets')
                self.do_handshake()
            except (OSError, ValueError):
                self.close()
                raise
        return self

    # -- attributes the standard class exposes -----------------------------------------------------
    @property
    def context(self) -> Any:       # type: ignore[override]
        return self._sctx

    @context.setter
    def context(self, ctx: Any) -> None:
        self._sctx = ctx
        self._obj.context = ctx

    @property
    def server_side(self) -> bool:  # type: ignore[override]
        return self._tls_server_side

    @property
    def server_hostname(self) -> Optional[str]:     # type: ignore[override]
        return self._tls_hostname

    def __repr__(self) -> str:
        return '<SimTLSSocket fd=%d%s>' % (self._sfd, ' closed' if self._sclosed else '')

    # -- transport helpers ------------------------------------------------------------------------------
    def _push(self) -> bool:
        """Move pending ciphertext to the transport.  True if nothing is left."""
        self._cipher += self._outb.read()
        while self._cipher:
            try:
                k = SimSocket.send(self, bytes(self._cipher[:65536]))
            except BlockingIOError:
                return False
            del self._cipher[:k]
        return True

    def _pull(self, need: int) -> bool:
        """Make sure `need` raw bytes are buffered.  False on end-of-stream."""
        while len(self._raw) < need:
            try:
                d = SimSocket.recv(self, need - len(self._raw))
            except BlockingIOError:
                raise _want_read()
            if not d:
                return False
            self._raw += d
        return True

    def _feed_one_record(self) -> bool:
        ok = self._pull(5)
        if ok:
            n = int.from_bytes(self._raw[3:5], 'big')
            ok = self._pull(5 + n)
            if ok:
                self._inc.write(bytes(self._raw[:5 + n]))
                del self._raw[:5 + n]
                return True
        if self._raw:
            self._inc.write(bytes(self._raw))
            self._raw.clear()
        if not self._tls_eof:
            self._tls_eof = True
            self._inc.write_eof()
        return False

    # -- TLS operations ------------------------------------------------------------------------------------
    def do_handshake(self, block: bool = False) -> None:    # type: ignore[override]
        while True:
            try:
                self._obj.do_handshake()
                break
            except ssl.SSLWantReadError:
                if not self._push():
                    raise _want_write()
                self._feed_one_record()
            except ssl.SSLWantWriteError:
                if not self._push():
                    raise _want_write()
            except ssl.SSLError:
                try:
                    self._push()        # the alert, if any
                except OSError:
                    pass
                raise
        self._push()

    _unwrapped = False

    def send(self, data: Any, flags: int = 0) -> int:
        if self._unwrapped:
            return SimSocket.send(self, data, flags)
        if self._pend_plain:
            # retry of a write whose record was not completely out (it may have been completed by a read in between)
            if not self._push():
                raise _want_write()
            n, self._pend_plain = self._pend_plain, 0
            return n
        if not self._push():
            raise _want_write()
        chunk = bytes(data[:RECORD_MAX])
        if not chunk:
            return 0
        self._obj.write(chunk)
        if self._push():
            return len(chunk)
        self._pend_plain = len(chunk)
        raise _want_write()

    def sendall(self, data: Any, flags: int = 0) -> None:
        mv = memoryview(data)
        while len(mv):
            n = self.send(mv)
            mv = mv[n:]

    def write(self, data: Any) -> int:
        return self.send(data)

    def recv(self, bufsize: int = 1024, flags: int = 0) -> bytes:
        if self._unwrapped:
            return SimSocket.recv(self, bufsize, flags)
        while True:
            try:
                return self._obj.read(bufsize)
            except ssl.SSLWantReadError:
                self._push()
                self._feed_one_record()
            except ssl.SSLError as x:
                if x.args and x.args[0] == ssl.SSL_ERROR_EOF and self._suppress_ragged:
                    return b''
                raise

    def read(self, nbytes: int = 1024, buffer: Any = None) -> Any:      # type: ignore[override]
        d = self.recv(nbytes)
        if buffer is not None:
            buffer[:len(d)] = d
            return len(d)
        return d

    def recv_into(self, buf: Any, nbytes: int = 0, flags: int = 0) -> int:
        d = self.recv(nbytes or len(buf))
        buf[:len(d)] = d
        return len(d)

    def pending(self) -> int:
        return self._obj.pending()

    def getpeercert(self, binary_form: bool = False) -> Any:
        return self._obj.getpeercert(binary_form)

    def cipher(self) -> Any:
        return self._obj.cipher()

    def version(self) -> Any:
        return self._obj.version()

    def selected_alpn_protocol(self) -> Any:
        return self._obj.selected_alpn_protocol()

    def unwrap(self) -> Any:
        try:
            self._obj.unwrap()
        except (ssl.SSLWantReadError, ssl.SSLWantWriteError):
            pass
        self._push()
        # like ssl.SSLSocket.unwrap(): the object returned is this very socket, from now on without TLS
        self._unwrapped = True
        return self

    def shutdown(self, how: int) -> None:
        SimSocket.shutdown(self, how)

    def close(self) -> None:
        SimSocket.close(self)


# ---------------------------------------------------------------------------------------------------------------------
# TLS for scripted peers
# ---------------------------------------------------------------------------------------------------------------------

class TLSLayer:
    """SSLObject state machine for an actor: feed raw bytes in, take raw bytes out."""

    def __init__(self, ctx: Any, server_side: bool, server_hostname: Optional[str] = None) -> None:
        self.inc = ssl.MemoryBIO()
        self.out = ssl.MemoryBIO()
        self.obj = ctx.wrap_bio(self.inc, self.out, server_side=server_side, server_hostname=server_hostname)
        self.done = False
        self.error: Optional[str] = None
        self.error_detail = ''
        self.peercert_der: Optional[bytes] = None
        self.peercert: Any = None
        self.closed = False         # close_notify or transport EOF seen
        self.plain = bytearray()

    def feed(self, raw: bytes) -> None:
        self.inc.write(raw)

    def feed_eof(self) -> None:
        self.inc.write_eof()

    def pump(self) -> None:
        """Advance the handshake / decrypt whatever is available."""
        if self.error is not None:
            return
        if not self.done:
            try:
                self.obj.do_handshake()
                self.done = True
                try:
                    self.peercert_der = self.obj.getpeercert(True)
                    self.peercert = self.obj.getpeercert(False)
                except ValueError:
                    pass
            except (ssl.SSLWantReadError, ssl.SSLWantWriteError):
                return
            except ssl.SSLError as e:
                self.error = type(e).__name__
                self.error_detail = '%s %s' % (getattr(e, 'reason', ''), getattr(e, 'verify_message', ''))
                return
        while True:
            try:
                d = self.obj.read(65536)
            except (ssl.SSLWantReadError, ssl.SSLWantWriteError):
                return
            except ssl.SSLError as e:
                if e.args and e.args[0] == ssl.SSL_ERROR_EOF:
                    self.closed = True
                    return
                self.error = type(e).__name__
                self.error_detail = str(getattr(e, 'reason', ''))
                return
            if not d:
                self.closed = True
                return
            self.plain += d

    def write(self, data: bytes) -> int:
        return self.obj.write(data)

    def take_out(self) -> bytes:
        return self.out.read()


# ---------------------------------------------------------------------------------------------------------------------
# fixtures: a proxy CA, a signing key, a public CA and origin certificates
# ---------------------------------------------------------------------------------------------------------------------

def _run(args: List[str], cwd: str) -> None:
    p = subprocess.run(args, cwd=cwd, capture_output=True, timeout=120)
    if p.returncode != 0:
        raise RuntimeError('openssl failed: %s\n%s' % (' '.join(args), p.stderr.decode('utf-8', 'replace')[-800:]))


def fixtures(base: str) -> Dict[str, str]:
    """Create (once per worker) the test PKI under `base`; returns paths."""
    d = os.path.join(base, 'pki')
    paths = {
        'ca_key': os.path.join(d, 'ca-key.pem'), 'ca_cert': os.path.join(d, 'ca-cert.pem'),
        'signing_key': os.path.join(d, 'ca-signing-key.pem'),
        'pub_key': os.path.join(d, 'pub-key.pem'), 'pub_cert': os.path.join(d, 'pub-cert.pem'),
        'dir': d, 'warm_dir': os.path.join(d, 'warm'),
    }
    if os.path.exists(os.path.join(d, 'DONE')):
        return paths
    os.makedirs(d, exist_ok=True)
    os.makedirs(paths['warm_dir'], exist_ok=True)
    o = 'openssl'
    _run([o, 'genrsa', '-out', 'ca-key.pem', '2048'], d)
    # fixed serial numbers: DER lengths (and with them TLS record sizes in the event log) must not vary between workers
    _run([o, 'req', '-new', '-x509', '-days', '3650', '-set_serial', '4097', '-key', 'ca-key.pem', '-out', 'ca-cert.pem', '-subj', '/CN=sim proxy CA',
          '-addext', 'basicConstraints=critical,CA:TRUE', '-addext', 'keyUsage=critical,keyCertSign,cRLSign'], d)
    _run([o, 'genrsa', '-out', 'ca-signing-key.pem', '2048'], d)
    _run([o, 'genrsa', '-out', 'pub-key.pem', '2048'], d)
    _run([o, 'req', '-new', '-x509', '-days', '3650', '-set_serial', '4098', '-key', 'pub-key.pem', '-out', 'pub-cert.pem', '-subj', '/CN=sim public CA',
          '-addext', 'basicConstraints=critical,CA:TRUE', '-addext', 'keyUsage=critical,keyCertSign,cRLSign'], d)
    _run([o, 'genrsa', '-out', 'origin-key.pem', '2048'], d)
    with open(os.path.join(d, 'DONE'), 'w') as f:
        f.write('ok')
    return paths


def origin_cert(paths: Dict[str, str], name: str, kind: str) -> Dict[str, str]:
    """Certificate + key for an origin called `name` (DNS name or IP literal).
    kind: good | selfsigned | wrongname | expired | oddsubject | emptysubject.  Cached per (name, kind)."""
    d = paths['dir']
    tag = '%s-%s' % (name.replace(':', '_'), kind)
    crt = os.path.join(d, 'o-%s.pem' % tag)
    key = os.path.join(d, 'origin-key.pem')
    if os.path.exists(crt):
        return {'cert': crt, 'key': key}
    import ipaddress
    subject = name if kind != 'wrongname' else 'elsewhere.example'
    try:
        ipaddress.ip_address(subject)
        san = 'IP:%s' % subject
    except ValueError:
        san = 'DNS:%s' % subject
    cn = subject if len(subject) <= 64 else 'long-name-origin'      # commonName is limited to 64 characters
    o = 'openssl'
    ext = os.path.join(d, 'ext-%s.cnf' % tag)
    with open(ext, 'w') as f:
        f.write('subjectAltName=%s\nbasicConstraints=CA:FALSE\n' % san)
    if kind == 'selfsigned':
        _run([o, 'req', '-new', '-x509', '-days', '365', '-set_serial', '4099', '-key', 'origin-key.pem', '-out', crt, '-subj', '/CN=%s' % cn,
              '-addext', 'subjectAltName=%s' % san], d)
        return {'cert': crt, 'key': key}
    csr = os.path.join(d, 'o-%s.csr' % tag)
    subj = '/CN=%s' % cn
    if kind == 'oddsubject':
        # an otherwise perfectly good certificate whose organisation name contains the characters that separate fields in
        # openssl's -subj syntax
        subj = '/O=Odd\\/Org\\+Co/CN=%s' % cn
    if kind == 'emptysubject':
        subj = '/'          # no subject at all: the name is in the subjectAltName only (RFC 5280 allows it)
    _run([o, 'req', '-new', '-key', 'origin-key.pem', '-out', csr, '-subj', subj], d)
    if kind == 'expired':
        # `openssl ca` takes explicit validity dates on every OpenSSL 1.1 / 3.x (x509 -days -1 is refused by some builds)
        db = os.path.join(d, 'db-%s' % tag)
        os.makedirs(db, exist_ok=True)
        with open(os.path.join(db, 'index.txt'), 'w'):
            pass
        with open(os.path.join(db, 'serial'), 'w') as f:
            f.write('1004\n')
        cnf = os.path.join(d, 'ca-%s.cnf' % tag)
        with open(cnf, 'w') as f:
            f.write('[ ca ]\ndefault_ca = myca\n[ myca ]\ndir = %s\ndatabase = %s/index.txt\nnew_certs_dir = %s\n'
                    'serial = %s/serial\ndefault_md = sha256\npolicy = pol\nunique_subject = no\ncopy_extensions = none\n'
                    '[ pol ]\ncommonName = supplied\n' % (db, db, db, db))
        _run([o, 'ca', '-config', cnf, '-cert', 'pub-cert.pem', '-keyfile', 'pub-key.pem', '-startdate', '20200101000000Z',
              '-enddate', '20210101000000Z', '-in', csr, '-out', crt, '-batch', '-notext', '-extfile', ext], d)
        return {'cert': crt, 'key': key}
    _run([o, 'x509', '-req', '-in', csr, '-CA', 'pub-cert.pem', '-CAkey', 'pub-key.pem', '-set_serial', '4100', '-out', crt,
          '-extfile', ext, '-days', '365'], d)
    return {'cert': crt, 'key': key}
