"""Choice tape: the single source of every nondeterministic decision of a run.

Generation mode: values come from a PRNG seeded by the run seed and are
appended to ``choices``.  Replay mode: values are read back from a recorded
list; an exhausted tape yields 0.  Generators are written so that 0 is the
simplest choice, which is what makes plain tape reduction (delete / zero /
halve entries) a usable minimiser.

Logging never draws.
"""
import random
from typing import List, Optional, Sequence


class Tape:
    __slots__ = ('rng', 'choices', 'replay', 'pos', 'labels', 'keep_labels', 'overrun')

    def __init__(self, seed: Optional[int] = None, replay: Optional[Sequence[int]] = None,
                 keep_labels: bool = False) -> None:
        self.rng = random.Random(seed) if replay is None else None
        self.choices: List[int] = []
        self.replay = list(replay) if replay is not None else None
        self.pos = 0
        self.keep_labels = keep_labels
        self.labels: List[str] = []
        self.overrun = 0

    # -- primitive ---------------------------------------------------------
    def draw(self, n: int, label: str = '') -> int:
        """Integer in [0, n).  n <= 1 consumes nothing."""
        if n <= 1:
            return 0
        if self.replay is not None:
            if self.pos < len(self.replay):
                v = self.replay[self.pos]
                if v >= n or v < 0:
                    v = v % n
            else:
                v = 0
                self.overrun += 1
            self.pos += 1
        else:
            v = self.rng.randrange(n)   # type: ignore[union-attr]
        self.choices.append(v)
        if self.keep_labels:
            self.labels.append(label)
        return v

    # -- derived -----------------------------------------------------------
    def coin(self, p: float, label: str = '') -> bool:
        """True with probability ~p; recorded as 0/1 (0 = False = simplest)."""
        if p <= 0:
            return False
        if p >= 1:
            return True
        if self.replay is not None:
            return self.draw(2, label) == 1
        v = 1 if self.rng.random() < p else 0    # type: ignore[union-attr]
        self.choices.append(v)
        if self.keep_labels:
            self.labels.append(label)
        return v == 1

    def weighted(self, weights: Sequence[float], label: str = '') -> int:
        """Index drawn with the given weights; recorded as the index (0 first)."""
        n = len(weights)
        if n <= 1:
            return 0
        if self.replay is not None:
            return self.draw(n, label)
        tot = float(sum(weights))
        x = self.rng.random() * tot     # type: ignore[union-attr]
        acc = 0.0
        v = n - 1
        for i, w in enumerate(weights):
            acc += w
            if x < acc:
                v = i
                break
        self.choices.append(v)
        if self.keep_labels:
            self.labels.append(label)
        return v

    def pick(self, seq: Sequence, label: str = ''):
        return seq[self.draw(len(seq), label)]

    def small(self, n: int, label: str = '') -> int:
        """Integer in [0, n) biased towards small values (geometric-ish)."""
        if n <= 1:
            return 0
        if self.replay is not None:
            return self.draw(n, label)
        r = self.rng     # type: ignore[assignment]
        v = 0
        # half the mass on 0..n/8
        x = r.random()   # type: ignore[union-attr]
        if x < 0.5:
            v = r.randrange(max(1, n // 8))     # type: ignore[union-attr]
        else:
            v = r.randrange(n)      # type: ignore[union-attr]
        self.choices.append(v)
        if self.keep_labels:
            self.labels.append(label)
        return v

    def bytes(self, n: int, alphabet: Optional[bytes] = None, label: str = '') -> bytes:
        """n bytes.  One draw per byte would make tapes huge; instead one draw
        selects a sub-seed and the bytes are expanded from it deterministically
        (sub-seed 0 = all first-alphabet-symbol)."""
        if n <= 0:
            return b''
        sub = self.draw(1 << 30, label)
        alpha = alphabet
        if sub == 0:
            return (bytes([alpha[0]]) if alpha else b'a') * n
        r = random.Random(sub)
        if alpha is None:
            return r.randbytes(n)
        return bytes(r.choice(alpha) for _ in range(n))

    def fork_rng(self, label: str = '') -> random.Random:
        """A PRNG for bulk auxiliary choices that need not be shrinkable."""
        return random.Random(self.draw(1 << 30, label))
