"""SimLoop: a virtual-time asyncio event loop for the repository's executors.

* time() is the World's clock;
* waiting for the next timer is a kernel sleep (a scheduler yield point);
* tasks are pure-Python tasks whose hash is a per-run pseudo-random sequence
  number, so iteration over sets of tasks (which proxy.py does) is
  deterministic and explores different orders across runs.
"""
import asyncio
import asyncio.tasks
from typing import Any, List, Optional

from .kernel import HarnessError, World

_PyTask = asyncio.tasks._PyTask     # type: ignore[attr-defined]


class SimTask(_PyTask):     # type: ignore[misc,valid-type]
    def __init__(self, coro: Any, *, loop: Any = None, name: Any = None, context: Any = None,
                 **kw: Any) -> None:
        w = World.active
        if w is not None:
            w.task_seq += 1
            self._sim_hash = (w.aux_rng.getrandbits(20) << 12) | (w.task_seq & 0xfff)
            if name is None:
                name = 'T%d' % w.task_seq
        else:
            self._sim_hash = id(self) >> 4
        super().__init__(coro, loop=loop, name=name, context=context, **kw)
        if w is not None:
            qn = getattr(coro, '__qualname__', '')
            if not qn.endswith('handle_events'):
                w.long_tasks.append((qn, self))
            else:
                def _done(t: Any, w: Any = w) -> None:
                    if not t.cancelled() and t.exception() is not None:
                        w.stats['probe:worker_survived_task_exception'] += 1
                self.add_done_callback(_done)

    def __hash__(self) -> int:
        return self._sim_hash

    def __eq__(self, other: Any) -> bool:
        return self is other


class _IdleSelector:
    """What BaseEventLoop._run_once calls to wait for I/O or the next timer."""

    def __init__(self, world: World) -> None:
        self.world = world

    def select(self, timeout: Optional[float] = None) -> List[Any]:
        w = self.world
        if timeout is not None and timeout <= 0:
            return []
        if timeout is None:
            # nothing scheduled at all: the loop would sleep forever
            w.block(lambda: False, 3600.0, 'loop-idle')
            return []
        w.block(None, timeout, 'loop-timer')
        return []

    def close(self) -> None:
        pass


class SimLoop(asyncio.BaseEventLoop):
    def __init__(self) -> None:
        w = World.active
        if w is None:
            raise HarnessError('SimLoop outside a simulation')
        super().__init__()
        self._world = w
        self._selector = _IdleSelector(w)
        self._clock_resolution = 1e-9
        self.set_task_factory(self._factory)
        w.stats['loops'] += 1

    @staticmethod
    def _factory(loop: Any, coro: Any, **kw: Any) -> SimTask:
        return SimTask(coro, loop=loop, **kw)

    def time(self) -> float:
        return self._world.now

    def _process_events(self, event_list: Any) -> None:
        pass

    def _write_to_self(self) -> None:
        pass

    def close(self) -> None:
        if self.is_running():
            raise RuntimeError('Cannot close a running event loop')
        if self.is_closed():
            return
        super().close()


class SimPolicy(asyncio.DefaultEventLoopPolicy):
    """new_event_loop() -> SimLoop inside a simulation."""

    def __init__(self) -> None:
        super().__init__()
        self._sim_loops: dict = {}

    def new_event_loop(self) -> Any:
        if World.active is None:
            return super().new_event_loop()
        return SimLoop()

    def get_event_loop(self) -> Any:
        w = World.active
        if w is None:
            return super().get_event_loop()
        # one loop per sim thread (a remote executor runs in the main thread
        # of its own process)
        key = (id(w), w.current.tid if w.current else 0)
        lp = self._sim_loops.get(key)
        if lp is None or lp.is_closed():
            lp = SimLoop()
            self._sim_loops = {k: v for k, v in self._sim_loops.items() if k[0] == id(w)}
            self._sim_loops[key] = lp
        return lp
