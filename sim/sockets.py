"""SimSocket: a socket.socket subclass that never owns a real descriptor.

All state lives in the World's descriptor table; this object only remembers
its descriptor number and its Python-level timeout, exactly like the real
socket object.
"""
import errno
import os as _os
import socket as _socket
from typing import Any, List, Optional, Tuple

from .kernel import (
    FD_BASE, HarnessError, Listener, Stream, World,
)

_RealSocket = _socket.socket
_real_os_close = _os.close
_real_dup = _socket.dup
_real_getaddrinfo = _socket.getaddrinfo
_default_timeout: Optional[float] = None


def _w() -> World:
    w = World.active
    if w is None:
        raise HarnessError('socket call outside a simulation')
    return w


class SimSocket(_RealSocket):
    """In-memory socket.  `socket.socket` is rebound to this class inside
    simulation workers, so `isinstance(x, socket.socket)` keeps working."""

    def __init__(self, family: int = -1, type: int = -1, proto: int = -1,
                 fileno: Optional[int] = None) -> None:
        # deliberately NOT calling socket.socket.__init__: no real fd.
        w = _w()
        if family == -1:
            family = _socket.AF_INET
        if type == -1:
            type = _socket.SOCK_STREAM
        self._sfamily = family
        self._stype = type
        self._sproto = 0 if proto == -1 else proto
        self._stimeout: Optional[float] = _default_timeout
        self._sclosed = False
        self._io_refs = 0
        self._closed = False
        self._opts: dict = {}
        self._spid = w.cur_proc().pid
        self._sworld = w
        if fileno is not None:
            ofd = w.fd_get(fileno)      # EBADF if not open
            self._sfd = fileno
            self._sofd: Any = ofd
            fam = getattr(ofd, 'family', None)
            if fam is not None:
                self._sfamily = fam
        else:
            self._sofd = Listener(w, family, 'sock')
            self._sfd = w.cur_proc().alloc(self._sofd)
            w.ev(w.ename(), 'socket', 'fd=%d' % self._sfd)

    # -- identity -------------------------------------------------------
    @property
    def family(self) -> int:     # type: ignore[override]
        return self._sfamily

    @property
    def type(self) -> int:       # type: ignore[override]
        return self._stype

    @property
    def proto(self) -> int:      # type: ignore[override]
        return self._sproto

    def fileno(self) -> int:
        return -1 if self._sclosed else self._sfd

    def __repr__(self) -> str:
        return '<SimSocket fd=%d%s>' % (self._sfd, ' closed' if self._sclosed else '')

    def __enter__(self) -> 'SimSocket':
        return self

    def __exit__(self, *a: Any) -> None:
        if not self._sclosed:
            self.close()

    def __del__(self) -> None:
        # like CPython's socket finaliser: an unclosed socket object closes
        # its descriptor *number* when it is collected
        try:
            if not self._sclosed:
                w = World.active
                if w is not None and w is self._sworld and not w.aborting:
                    self._sclosed = True
                    p = w.procs.get(self._spid)
                    if p is not None and p.alive and self._sfd in p.fds:
                        w.stats['gc_close'] += 1
                        if isinstance(self._sofd, Stream) and not self._sofd.closed and self._sofd.refs == 1:
                            # a *connected* socket whose last descriptor is closed only because the object was collected
                            w.stats['gc_close_connected'] += 1
                            w.gc_closed_labels.append(self._sofd.label)
                        if p.fds[self._sfd] is not self._sofd:
                            w.closes_bad.append((p.pid, self._sfd, 'gc-stray'))
                        w.ev('gc', 'close', 'fd=%d' % self._sfd)
                        w._drop(p, self._sfd)
        except BaseException:   # noqa
            pass

    def _ofd(self) -> Any:
        if self._sclosed:
            raise OSError(errno.EBADF, 'Bad file descriptor')
        return _w().fd_get(self._sfd)

    def _stream(self) -> Stream:
        o = self._ofd()
        if not isinstance(o, Stream):
            raise OSError(errno.ENOTCONN, 'Transport endpoint is not connected')
        return o

    # -- options ----------------------------------------------------------
    def setblocking(self, flag: bool) -> None:
        self._stimeout = None if flag else 0.0

    def settimeout(self, t: Optional[float]) -> None:
        self._stimeout = t

    def gettimeout(self) -> Optional[float]:
        return self._stimeout

    def getblocking(self) -> bool:
        return self._stimeout != 0.0

    def setsockopt(self, *a: Any) -> None:
        self._opts[(a[0], a[1])] = a[2] if len(a) > 2 else None

    def getsockopt(self, level: int, opt: int, *a: Any) -> Any:
        if level == _socket.SOL_SOCKET and opt == _socket.SO_TYPE:
            return self._stype
        if level == _socket.SOL_SOCKET and opt == _socket.SO_ERROR:
            return 0
        return self._opts.get((level, opt), 0)

    def getsockname(self) -> Any:
        o = self._ofd()
        if isinstance(o, Listener):
            a = o.addr
            if a is None:
                return ('0.0.0.0', 0) if self._sfamily == _socket.AF_INET else ('::', 0, 0, 0) \
                    if self._sfamily == _socket.AF_INET6 else ''
            if self._sfamily == _socket.AF_INET6:
                return (a[0], a[1], 0, 0)
            return a
        return o.laddr

    def getpeername(self) -> Any:
        o = self._stream()
        return o.raddr

    # -- server side --------------------------------------------------------
    def bind(self, addr: Any) -> None:
        w = _w()
        w.syscall()
        o = self._ofd()
        if not isinstance(o, Listener):
            raise OSError(errno.EINVAL, 'Invalid argument')
        if o.addr is not None:
            raise OSError(errno.EINVAL, 'Invalid argument')
        if self._sfamily == _socket.AF_UNIX:
            key = ('unix', addr)
            if key in w.bound or _os.path.exists(addr):
                raise OSError(errno.EADDRINUSE, 'Address already in use')
            # placeholder so that os.remove() in the listener's shutdown works
            with open(addr, 'wb'):
                pass
            o.addr = addr
            w.bound[key] = o
            w.ev(w.ename(), 'bind', 'unix')
            return
        host, port = addr[0], addr[1]
        if port == 0:
            port = w.ephemeral_port(host)
        key = (host, port)
        if key in w.bound:
            raise OSError(errno.EADDRINUSE, 'Address already in use')
        # wildcard conflicts
        for (h, p) in [k for k in w.bound if k[0] != 'unix']:
            if p == port and (h in ('0.0.0.0', '::') or host in ('0.0.0.0', '::')) and \
                    ((':' in h) == (':' in host)):
                raise OSError(errno.EADDRINUSE, 'Address already in use')
        o.addr = (host, port)
        w.bound[key] = o
        w.ev(w.ename(), 'bind', '%s:%d' % (host, port))

    def listen(self, backlog: int = 128) -> None:
        w = _w()
        w.syscall()
        o = self._ofd()
        if not isinstance(o, Listener):
            raise OSError(errno.EINVAL, 'Invalid argument')
        o.listening = True
        o.backlog_max = max(1, backlog)
        o.label = 'listener:%s' % (_os.path.basename(o.addr) if isinstance(o.addr, str) else o.addr,)
        w.ev(w.ename(), 'listen', o.label)

    def accept(self) -> Tuple['SimSocket', Any]:
        w = _w()
        w.syscall()
        o = self._ofd()
        if not isinstance(o, Listener) or not o.listening:
            raise OSError(errno.EINVAL, 'Invalid argument')
        if not o.queue:
            t = self._stimeout
            if t == 0.0:
                raise BlockingIOError(errno.EAGAIN, 'Resource temporarily unavailable')
            if not w.block(lambda: bool(o.queue) or o.closed, t, 'accept'):
                raise _socket.timeout('timed out')
            if not o.queue:
                raise OSError(errno.EBADF, 'Bad file descriptor')
        st, addr = o.queue.pop(0)
        fd = w.cur_proc().alloc(st)
        s = SimSocket(self._sfamily, self._stype, 0, fileno=fd)
        # accepted sockets do not inherit the listener's timeout in CPython:
        # they get the default timeout (blocking)
        s._stimeout = _default_timeout
        w.ev(w.ename(), 'accept', 'fd=%d %s' % (fd, st.label))
        w.touch()
        if self._sfamily == _socket.AF_UNIX:
            return s, ''
        return s, addr

    # -- client side ---------------------------------------------------------
    def connect(self, addr: Any) -> None:
        w = _w()
        w.syscall()
        o = self._ofd()
        if isinstance(o, Stream):
            raise OSError(errno.EISCONN, 'Transport endpoint is already connected')
        if o.listening:
            raise OSError(errno.EINVAL, 'Invalid argument')
        host, port = addr[0], addr[1]
        st = w.net_connect(self._sfamily, host, port, self._stimeout)
        # replace the placeholder description under the same number
        p = w.cur_proc()
        old = p.fds[self._sfd]
        old.refs -= 1
        p.fds[self._sfd] = st
        st.refs += 1
        st.family = self._sfamily
        self._sofd = st

    def connect_ex(self, addr: Any) -> int:
        try:
            self.connect(addr)
            return 0
        except OSError as e:
            return e.errno or errno.EIO

    # -- data ----------------------------------------------------------------
    def send(self, data: Any, flags: int = 0) -> int:
        w = _w()
        w.syscall()
        st = self._stream()
        if self._stimeout is None:
            # a blocking stream socket: the kernel returns only when everything was queued (or on error)
            return self._send_blocking(w, st, data)
        f = w.fault('send', st)
        if f is not None:
            if f == 'eagain' and self._stimeout == 0.0:
                w.ev(w.ename(), 'send', 'fd=%d EAGAIN(f)' % self._sfd)
                raise BlockingIOError(errno.EAGAIN, 'Resource temporarily unavailable')
            if f == 'short' and len(data) > 1:
                room = st.room()
                lim = min(len(data), room) if room > 0 else 0
                if lim > 1:
                    k = 1 + w.tape.small(lim - 1, 'shortlen')
                    data = data[:k]
            elif f.startswith('E'):
                e = getattr(errno, f)
                w.ev(w.ename(), 'send', 'fd=%d %s(f)' % (self._sfd, f))
                _apply_errno_side_effect(st, e)
                raise _oserror(e)
        while True:
            try:
                n = st.k_send(data)
                break
            except BlockingIOError:
                t = self._stimeout
                if t == 0.0:
                    w.stats['eagain_send'] += 1
                    w.ev(w.ename(), 'send', 'fd=%d EAGAIN' % self._sfd)
                    raise
                if not w.block(st.writable, t, 'send'):
                    w.ev(w.ename(), 'send', 'fd=%d TIMEOUT' % self._sfd)
                    raise _socket.timeout('timed out')
            except OSError as e:
                w.ev(w.ename(), 'send', 'fd=%d %s' % (self._sfd, errno.errorcode.get(e.errno or 0, '?')))
                raise
        if n < len(data):
            w.stats['short_write'] += 1
            if n >= 4096:
                w.stats['short_write_ge4k'] += 1
        if st.io_times is not None:
            st.io_times.append((w.now, 'send', n))
        w.ev(w.ename(), 'send', 'fd=%d %d/%d' % (self._sfd, n, len(data)))
        return n

    def _send_blocking(self, w: World, st: Stream, data: Any) -> int:
        f = w.fault('send', st)
        if f is not None and f.startswith('E'):
            e = getattr(errno, f)
            w.ev(w.ename(), 'send', 'fd=%d %s(f)' % (self._sfd, f))
            _apply_errno_side_effect(st, e)
            raise _oserror(e)
        mv = memoryview(data)
        total = len(mv)
        done = 0
        while done < total:
            try:
                done += st.k_send(mv[done:])
            except BlockingIOError:
                w.block(st.writable, None, 'send')
            except OSError as e:
                w.ev(w.ename(), 'send', 'fd=%d %s' % (self._sfd, errno.errorcode.get(e.errno or 0, '?')))
                raise
        if st.io_times is not None:
            st.io_times.append((w.now, 'send', done))
        w.ev(w.ename(), 'send', 'fd=%d %d/%d (blocking)' % (self._sfd, done, total))
        return done

    def sendall(self, data: Any, flags: int = 0) -> None:
        mv = memoryview(data)
        while len(mv):
            # sendall on a non-blocking socket raises on EAGAIN, like the real one
            n = self.send(mv)
            mv = mv[n:]

    def recv(self, bufsize: int, flags: int = 0) -> bytes:
        w = _w()
        w.syscall()
        st = self._stream()
        f = w.fault('recv', st)
        if f is not None and f.startswith('E'):
            e = getattr(errno, f)
            w.ev(w.ename(), 'recv', 'fd=%d %s(f)' % (self._sfd, f))
            _apply_errno_side_effect(st, e)
            raise _oserror(e)
        while True:
            try:
                out = st.k_recv(bufsize)
                break
            except BlockingIOError:
                t = self._stimeout
                if t == 0.0:
                    w.stats['eagain_recv'] += 1
                    w.ev(w.ename(), 'recv', 'fd=%d EAGAIN' % self._sfd)
                    raise
                if not w.block(st.readable, t, 'recv'):
                    w.ev(w.ename(), 'recv', 'fd=%d TIMEOUT' % self._sfd)
                    raise _socket.timeout('timed out')
            except OSError as e:
                w.ev(w.ename(), 'recv', 'fd=%d %s' % (self._sfd, errno.errorcode.get(e.errno or 0, '?')))
                raise
        if st.io_times is not None:
            st.io_times.append((w.now, 'recv', len(out)))
        w.ev(w.ename(), 'recv', 'fd=%d %d' % (self._sfd, len(out)))
        return out

    def recv_into(self, buf: Any, nbytes: int = 0, flags: int = 0) -> int:
        n = nbytes or len(buf)
        data = self.recv(n)
        buf[:len(data)] = data
        return len(data)

    def shutdown(self, how: int) -> None:
        w = _w()
        w.syscall()
        st = self._stream()
        if how in (_socket.SHUT_WR, _socket.SHUT_RDWR):
            try:
                st.k_shutdown_wr()
            except OSError as e:
                w.ev(w.ename(), 'shutdown', 'fd=%d %s' % (self._sfd, errno.errorcode.get(e.errno or 0, '?')))
                raise
        w.ev(w.ename(), 'shutdown', 'fd=%d how=%d' % (self._sfd, how))

    def close(self) -> None:
        if self._sclosed:
            return
        w = World.active
        self._sclosed = True
        self._closed = True
        if w is None or w is not self._sworld:
            return
        if w.aborting:
            return
        w.syscall()
        p = w.cur_proc()
        cur = p.fds.get(self._sfd)
        if cur is not None and cur is not self._sofd:
            # our number now names somebody else's description
            w.closes_bad.append((p.pid, self._sfd, 'stray-close'))
        try:
            w.fd_close(self._sfd, 'sock.close')
        except OSError:
            pass

    def detach(self) -> int:
        fd = self._sfd
        self._sclosed = True
        self._closed = True
        return fd

    def dup(self) -> 'SimSocket':
        w = _w()
        fd = w.fd_dup(self._sfd)
        s = SimSocket(self._sfamily, self._stype, self._sproto, fileno=fd)
        s._stimeout = self._stimeout
        return s


def _oserror(e: int) -> OSError:
    return OSError(e, _os.strerror(e))      # maps to the right subclass


def _apply_errno_side_effect(st: Stream, e: int) -> None:
    """A fatal errno on a stream socket means the connection is gone."""
    if e in (errno.ECONNRESET, errno.EPIPE, errno.ETIMEDOUT, errno.EHOSTUNREACH,
             errno.ENETUNREACH, errno.ECONNABORTED):
        p = st.peer
        st.wr_shut = True
        st.fin_rcvd = True
        st.rx.clear()
        if p is not None and not p.closed and not p.rst_rcvd:
            p.rst_rcvd = True
            if p.on_data is not None:
                p.on_data()


# ---------------------------------------------------------------------------
# module-level replacements
# ---------------------------------------------------------------------------

def sim_dup(fd: int) -> int:
    w = World.active
    if w is None or fd < FD_BASE:
        return _real_dup(fd)
    w.syscall()
    return w.fd_dup(fd)


def sim_os_close(fd: int) -> None:
    w = World.active
    if w is None or fd < FD_BASE:
        return _real_os_close(fd)
    if w.aborting:
        return
    w.syscall()
    w.fd_close(fd, 'os.close')


def sim_getaddrinfo(host: Any, port: Any, family: int = 0, type: int = 0,
                    proto: int = 0, flags: int = 0) -> List[Any]:
    w = World.active
    if w is None:
        return _real_getaddrinfo(host, port, family, type, proto, flags)
    w.syscall()
    return w.resolve(host, port, family, type)


def sim_setdefaulttimeout(t: Optional[float]) -> None:
    global _default_timeout
    _default_timeout = t


def sim_getdefaulttimeout() -> Optional[float]:
    return _default_timeout
