"""Generated plugins: classes deriving from the repository's real plugin base
classes, produced per run from tables drawn from the tape.  Every class gets a
distinct qualified name (the repository keys plugin instances by name)."""
from typing import Any, Callable, Dict, List, Optional, Tuple

_counter = [0]


def _uniq(prefix: str) -> str:
    _counter[0] += 1
    return '%s_%d' % (prefix, _counter[0])


def make_web_route_plugin(idx: int, route_regex: str, body_for: Callable[[bytes], bytes],
                          log: Optional[List[Any]] = None, conn_close: bool = False) -> type:
    """A web-server route answering every request with its own identity and
    the request's X-Req-Tag echoed back."""
    from proxy.http.responses import okResponse
    from proxy.http.server import HttpWebServerBasePlugin, httpProtocolTypes

    def routes(self: Any) -> List[Tuple[int, str]]:
        return [(httpProtocolTypes.HTTP, route_regex)]

    def handle_request(self: Any, request: Any) -> None:
        tag = request.header(b'x-req-tag') if request.has_header(b'x-req-tag') else b'-'
        if log is not None:
            log.append(('route%d' % idx, tag, request.method, request.path, request.body))
        self.client.queue(okResponse(
            content=body_for(tag),
            headers={b'X-Origin': b'route%d' % idx, b'X-Tag': tag},
            compress=False,
            conn_close=conn_close,
        ))

    name = _uniq('GenRoute%d' % idx)
    return type(name, (HttpWebServerBasePlugin,), {
        'routes': routes, 'handle_request': handle_request, '__qualname__': name,
        '__module__': __name__,
    })


def make_reverse_plugin(table: List[Any], log: Optional[List[Any]] = None,
                        dynamic: Optional[Dict[str, Any]] = None) -> type:
    """A ReverseProxyBasePlugin with the given route table.  `table` entries are
    (regex, [url bytes...]) for static routes or a regex string for dynamic
    routes, whose result comes from `dynamic[regex]` (a Url or a memoryview)."""
    from proxy.http.server import ReverseProxyBasePlugin

    def routes(self: Any) -> List[Any]:
        return list(table)

    def handle_route(self: Any, request: Any, pattern: Any) -> Any:
        assert dynamic is not None
        v = dynamic[pattern.pattern]
        if log is not None:
            log.append(('dynamic', pattern.pattern))
        if callable(v):
            return v(request)
        return v

    name = _uniq('GenReverse')
    return type(name, (ReverseProxyBasePlugin,), {
        'routes': routes, 'handle_route': handle_route, '__qualname__': name, '__module__': __name__,
    })
