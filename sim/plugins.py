"""Generated plugins: classes deriving from the repository's real plugin base
classes, produced per run from tables drawn from the tape.  Every class gets a
distinct qualified name (the repository keys plugin instances by name)."""
from typing import Any, Callable, Dict, List, Optional, Tuple

_counter = [0]


def _uniq(prefix: str) -> str:
    _counter[0] += 1
    return '%s_%d' % (prefix, _counter[0])


def make_web_route_plugin(idx: int, route_regex: str, body_for: Callable[[bytes], bytes],
                          log: Optional[List[Any]] = None, conn_close: bool = False) -> type:
    """A web-server route answering every request with its own identity and
    the request's X-Req-Tag echoed back."""
    from proxy.http.responses import okResponse
    from proxy.http.server import HttpWebServerBasePlugin, httpProtocolTypes

    def routes(self: Any) -> List[Tuple[int, str]]:
        return [(httpProtocolTypes.HTTP, route_regex)]

    def handle_request(self: Any, request: Any) -> None:
        tag = request.header(b'x-req-tag') if request.has_header(b'x-req-tag') else b'-'
        if log is not None:
            log.append(('route%d' % idx, tag, request.method, request.path, request.body))
        self.client.queue(okResponse(
            content=body_for(tag),
            headers={b'X-Origin': b'route%d' % idx, b'X-Tag': tag},
            compress=False,
            conn_close=conn_close,
        ))

    name = _uniq('GenRoute%d' % idx)
    return type(name, (HttpWebServerBasePlugin,), {
        'routes': routes, 'handle_request': handle_request, '__qualname__': name,
        '__module__': __name__,
    })


def make_reverse_plugin(table: List[Any], log: Optional[List[Any]] = None,
                        dynamic: Optional[Dict[str, Any]] = None) -> type:
    """A ReverseProxyBasePlugin with the given route table.  `table` entries are
    (regex, [url bytes...]) for static routes or a regex string for dynamic
    routes, whose result comes from `dynamic[regex]` (a Url or a memoryview)."""
    from proxy.http.server import ReverseProxyBasePlugin

    def routes(self: Any) -> List[Any]:
        return list(table)

    def handle_route(self: Any, request: Any, pattern: Any) -> Any:
        assert dynamic is not None
        v = dynamic[pattern.pattern]
        if log is not None:
            log.append(('dynamic', pattern.pattern))
        if callable(v):
            return v(request)
        return v

    name = _uniq('GenReverse')
    return type(name, (ReverseProxyBasePlugin,), {
        'routes': routes, 'handle_route': handle_route, '__qualname__': name, '__module__': __name__,
    })


PROXY_HOOKS = ('resolve_dns', 'before_upstream_connection', 'handle_client_request', 'handle_client_data',
               'handle_upstream_chunk', 'on_upstream_connection_close', 'on_access_log', 'do_intercept')
REQUEST_HOOKS = ('resolve_dns', 'before_upstream_connection', 'handle_client_request', 'handle_client_data',
                 'handle_upstream_chunk', 'do_intercept')


def _markers(request: Any) -> Tuple[bytes, ...]:
    hs = request.headers or {}
    return tuple(sorted(k for k in hs if k.startswith(b'x-mark-')))


def make_proxy_plugin(idx: int, table: Dict[str, Any], log: List[Any]) -> type:
    """An HttpProxyBasePlugin whose hooks act according to `table`
    (hook -> action) and append (idx, hook, detail) to `log`.

    Actions for before_upstream_connection / handle_client_request:
      'pass' | 'modify' (adds header X-Mark-<idx><b|h>) | 'drop' (return None) |
      ('reject', status, reason, headers, body) | 'raise' (HttpProtocolException).
      A ('nth', n, action) wrapper applies `action` only to the n-th call (1-based) of that hook
      on the connection, 'pass' otherwise.
    handle_upstream_chunk: 'pass' | 'drop' | 'mark' (records only).
    on_access_log: 'pass' | 'modify' | 'none'.
    resolve_dns: 'pass' | ('ip', '10.0.0.9') | ('src', ('10.0.0.77', 0)).
    """
    from proxy.http.exception import HttpProtocolException, HttpRequestRejected
    from proxy.http.proxy import HttpProxyBasePlugin

    def act_of(self: Any, hook: str) -> Any:
        a = table.get(hook, 'pass')
        n = self._calls.get(hook, 0) + 1
        self._calls[hook] = n
        if isinstance(a, tuple) and a and a[0] == 'nth':
            return a[2] if n == a[1] else 'pass'
        return a

    def _req_hook(hook: str, suffix: bytes) -> Any:
        def fn(self: Any, request: Any) -> Any:
            a = act_of(self, hook)
            log.append((idx, hook, self.uid, _markers(request), request.method, a if isinstance(a, str) else a[0]))
            if a == 'pass':
                return request
            if a == 'modify':
                request.add_header(b'X-Mark-%d%s' % (idx, suffix), b'1')
                return request
            if a == 'replace':
                # hand on a *new* request object; the one received stays untouched
                from proxy.http.parser import HttpParser, httpParserTypes
                new = HttpParser(httpParserTypes.REQUEST_PARSER)
                new.parse(memoryview(request.build(for_proxy=True)))
                new.add_header(b'X-Mark-%d%s' % (idx, suffix), b'1')
                return new
            if a == 'drop':
                return None
            if a == 'raise':
                raise HttpProtocolException('generated plugin %d raises in %s' % (idx, hook))
            if isinstance(a, tuple) and a[0] == 'reject':
                raise HttpRequestRejected(status_code=a[1], reason=a[2], headers=a[3], body=a[4])
            raise AssertionError(a)
        return fn

    def __init__(self: Any, *a: Any, **k: Any) -> None:
        HttpProxyBasePlugin.__init__(self, *a, **k)
        self._calls = {}
        log.append((idx, '__init__', self.uid))

    def resolve_dns(self: Any, host: str, port: int) -> Any:
        a = act_of(self, 'resolve_dns')
        log.append((idx, 'resolve_dns', self.uid, host, port))
        if isinstance(a, tuple) and a[0] == 'ip':
            return a[1], None
        if isinstance(a, tuple) and a[0] == 'src':
            return None, a[1]           # no address, only the source address to connect from: ends the chain as well
        return None, None

    def handle_client_data(self: Any, raw: Any) -> Any:
        a = act_of(self, 'handle_client_data')
        log.append((idx, 'handle_client_data', self.uid, len(raw)))
        return None if a == 'drop' else raw

    def handle_upstream_chunk(self: Any, chunk: Any) -> Any:
        a = act_of(self, 'handle_upstream_chunk')
        log.append((idx, 'handle_upstream_chunk', self.uid, len(chunk)))
        return None if a == 'drop' else chunk

    def on_upstream_connection_close(self: Any) -> None:
        log.append((idx, 'on_upstream_connection_close', self.uid))

    def on_access_log(self: Any, context: Dict[str, Any]) -> Any:
        a = act_of(self, 'on_access_log')
        log.append((idx, 'on_access_log', self.uid, tuple(sorted(k for k in context if k.startswith('mark')))))
        if a == 'none':
            return None
        if a == 'modify':
            context['mark%d' % idx] = 1
        return context

    def do_intercept(self: Any, request: Any) -> bool:
        log.append((idx, 'do_intercept', self.uid))
        a = table.get('do_intercept', 'pass')
        if a == 'no':
            return False
        return HttpProxyBasePlugin.do_intercept(self, request)

    name = _uniq('GenProxy%d' % idx)
    return type(name, (HttpProxyBasePlugin,), {
        '__init__': __init__, 'resolve_dns': resolve_dns,
        'before_upstream_connection': _req_hook('before_upstream_connection', b'b'),
        'handle_client_request': _req_hook('handle_client_request', b'h'),
        'handle_client_data': handle_client_data, 'handle_upstream_chunk': handle_upstream_chunk,
        'on_upstream_connection_close': on_upstream_connection_close, 'on_access_log': on_access_log,
        'do_intercept': do_intercept, '__qualname__': name, '__module__': __name__,
    })
