#!/venv/bin/python
"""Debug helper: tools/dbg.py CXX many N [tier]   |   tools/dbg.py CXX one INDEX [tier] (prints the event log)"""
import os, sys, tempfile, time, collections
HERE = os.path.dirname(os.path.dirname(os.path.abspath(__file__)))
sys.path.insert(0, HERE)
_d = tempfile.mkdtemp(prefix='dbg-')
os.environ.setdefault('VERIF_SCRATCH', _d)
import atexit, shutil
atexit.register(shutil.rmtree, _d, True)
from sim.install import install
install()
from sim import props
from sim.tape import Tape
from sim.worker import hash64
import gc

def main():
    pid, what, n = sys.argv[1].upper(), sys.argv[2], int(sys.argv[3])
    tier = sys.argv[4] if len(sys.argv) > 4 else 'quick'
    base = int(os.environ.get('VERIF_SEED', '1'))
    mod = props.load(pid)
    cfg = {k: v for k, v in mod.TIERS[tier].items() if k not in ('runs', 'budget_s', 'watchdog_s')}
    if hasattr(mod, 'setup_worker'):
        mod.setup_worker({'scratch': os.environ['VERIF_SCRATCH']})
    gc.disable()
    if what == 'many':
        sigs = collections.Counter(); first = {}
        t0 = time.time(); probes = collections.Counter()
        for i in range(n):
            tape = Tape(hash64(base, pid, i))
            r = mod.run_one(tape, cfg, frozenset())
            for k, v in r.stats.items():
                if k.startswith('probe:'): probes[k[6:]] += v
            f = r.first()
            if f:
                sigs[(f[0], f[1])] += 1
                first.setdefault((f[0], f[1]), (i, f[2]))
            if i % 50 == 0: gc.collect()
        print('%d runs %.1fs' % (n, time.time() - t0))
        print('probes', dict(probes))
        for s, c in sigs.most_common():
            print(c, s, 'first index', first[s][0], '\n    ', first[s][1][:400])
    else:
        tape = Tape(hash64(base, pid, n), keep_labels=True)
        import sim.kernel as K
        orig = K.World.__init__
        def init(self, *a, **k):
            k['keep_log'] = 100000
            orig(self, *a, **k)
        K.World.__init__ = init
        if os.environ.get('DBG_LOG'):
            import logging
            logging.disable(logging.NOTSET)
            logging.basicConfig(level=logging.DEBUG)
        r = mod.run_one(tape, cfg, frozenset())
        print('scenario', r.scenario)
        for ln in r.log[-int(os.environ.get('DBG_TAIL', '150')):]:
            print(ln)
        print('failures', r.failures)

main()
