#!/bin/bash
# tools/try_seeded.sh <PROP> <patch.diff> [tier]
# Run a property's check against a seeded change.  The change is applied to a scratch copy of /repo/proxy (VERIF_REPO), so
# /repo itself is never touched and other work can go on; `--in-repo` as 4th argument applies it to /repo instead
# (git -C /repo apply; run; git -C /repo checkout -- .), which is how the checks are meant to be used.
set -u
P=$1; PATCH=$(readlink -f "$2"); TIER=${3:-quick}; MODE=${4:-scratch}
cd /verif
if [ "$MODE" = "--in-repo" ]; then
  if [ -n "$(git -C /repo status --porcelain --untracked-files=no)" ]; then echo "/repo not clean"; exit 2; fi
  git -C /repo apply "$PATCH" || { echo "patch does not apply"; exit 2; }
  ./check "$P" --tier "$TIER" > /tmp/try_seeded.$$.out 2>&1; rc=$?
  git -C /repo checkout -- .
else
  D=$(mktemp -d /tmp/seedrepo-XXXXXX)
  cp -r /repo/proxy "$D/proxy"
  (cd "$D" && patch -s -p1 < "$PATCH") || { echo "patch does not apply"; rm -rf "$D"; exit 2; }
  VERIF_REPO="$D" ./check "$P" --tier "$TIER" > /tmp/try_seeded.$$.out 2>&1; rc=$?
  rm -rf "$D"
fi
grep -v "^WARNING\|probes:" /tmp/try_seeded.$$.out | cut -c1-400 | head -12
echo "exit=$rc"
# replays written for seeded changes are not findings about /repo
for f in $(grep -o 'replay=[^ ]*' /tmp/try_seeded.$$.out | cut -d= -f2); do rm -f "$f"; done
rm -f /tmp/try_seeded.$$.out
