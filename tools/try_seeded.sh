#!/bin/bash
# tools/try_seeded.sh <PROP> <patch.diff> [tier]  -- apply a seeded change to /repo, run the check, undo.
set -u
P=$1; PATCH=$2; TIER=${3:-quick}
cd /repo || exit 2
if [ -n "$(git status --porcelain --untracked-files=no)" ]; then echo "/repo not clean"; exit 2; fi
git apply "$PATCH" || { echo "patch does not apply"; exit 2; }
cd /verif
./check "$P" --tier "$TIER" > /tmp/try_seeded.out 2>&1
rc=$?
git -C /repo checkout -- .
grep -v "^WARNING\|probes:" /tmp/try_seeded.out | cut -c1-400 | head -12
echo "exit=$rc"
# replays written for seeded changes are not findings about /repo
for f in $(grep -o 'replay=[^ ]*' /tmp/try_seeded.out | cut -d= -f2); do rm -f "$f"; done
