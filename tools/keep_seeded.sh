#!/bin/bash
# tools/keep_seeded.sh <PROP> <worktree> <seed-id>
# Confirm a sub-agent's seeded change independently (demo fails with / passes without the change, package imports,
# the example-based tests of the touched areas still pass), run the property's quick check against it, and file it
# under /verif/seeded/<seed-id>/.
set -u
P=$1; WT=$2; ID=$3
OUT=/verif/seeded/$ID
mkdir -p "$OUT"
cd "$WT" || exit 2
git diff -- proxy > "$OUT/patch.diff"
[ -s "$OUT/patch.diff" ] || { echo "empty patch"; exit 2; }
cp seeded_demo.py "$OUT/demo.py"
cp seeded_notes.md "$OUT/notes.md" 2>/dev/null
/venv/bin/python -c "import proxy, proxy.proxy" || { echo "IMPORT FAILS"; exit 2; }
timeout 300 /venv/bin/python seeded_demo.py > "$OUT/demo_with_change.log" 2>&1; with=$?
# (git stash is shared between worktrees of one repository: use the saved patch instead)
git apply -R "$OUT/patch.diff" || { echo "cannot reverse patch"; exit 2; }
timeout 300 /venv/bin/python seeded_demo.py > "$OUT/demo_without_change.log" 2>&1; without=$?
git apply "$OUT/patch.diff"
echo "demo exit with change=$with without=$without"
timeout 1500 /venv/bin/python -m pytest -q -p no:cacheprovider -x tests/core tests/http tests/common tests/plugin tests/test_main.py \
  --deselect tests/http/test_client.py --deselect tests/http/proxy/test_http2.py \
  --deselect tests/test_main.py::TestProxyContextManager -p no:randomly > "$OUT/tests_with_change.log" 2>&1; trc=$?
tail -1 "$OUT/tests_with_change.log"
/verif/tools/try_seeded.sh "$P" "$OUT/patch.diff" > "$OUT/check_quick.log" 2>&1
cat "$OUT/check_quick.log"
det=$(grep -c '^VIOLATION' "$OUT/check_quick.log")
cat > "$OUT/meta.json" <<EOM
{
 "id": "$ID",
 "property": "$P",
 "origin": "written by an independent sub-agent that saw only the property text and a scratch worktree of /repo",
 "demo_exit_with_change": $with,
 "demo_exit_without_change": $without,
 "existing_tests_exit_with_change": $trc,
 "existing_tests_cmd": "pytest -x tests/core tests/http tests/common tests/plugin tests/test_main.py (network-only tests deselected)",
 "check_cmd": "git -C /repo apply patch.diff; ./check $P --tier quick; git -C /repo checkout -- .",
 "quick_check_violation_lines": $det,
 "needs_to_manifest": "see notes.md"
}
EOM
echo "filed $OUT (violations reported: $det)"
