#!/venv/bin/python
"""Regenerate /verif/MANIFEST.json from the property modules that exist."""
import json
import os
import sys

HERE = os.path.dirname(os.path.dirname(os.path.abspath(__file__)))
sys.path.insert(0, HERE)
from sim import props   # noqa: E402

NA = {
    'C15': 'pure functions of one in-memory value (builders / parse(build(x)) laws / chunk codec on complete inputs): '
           'no stream, schedule, clock, fault or second party for a simulator to control; deciding it is '
           'property-based input generation, a different technique. The stream-facing part of the same code is '
           'claimed under C03, its end-to-end effect under C02.',
    'C16': 'WebsocketFrame.build/parse/key_to_accept map bytes to fields and back with no I/O, time or concurrency; '
           'purely input-quantified, not a simulation target.',
}

LEVEL_TEXT = ('seeded search over simulated executions: the real proxy.py classes run unmodified on an in-memory '
              'kernel (sockets, epoll, descriptors, clock, threads/processes) whose every interleaving, partial '
              'write and fault is decided by one seed; oracles are invariants during the run and history checks '
              'against independent references afterwards. Sampling, not enumeration: a clean batch is evidence, '
              'not proof.')
NOTE = ('trusted base: the simulator (/verif/sim: kernel, selector, loop, scheduler; its fidelity is checked by '
        'sim/conformance.py against the real kernel objects), h11 as HTTP reference, CPython. Pre-emption only at '
        'kernel calls; sim processes share one heap; no loss of kernel-accepted data modelled.')


def main() -> None:
    all_ids = ['C%02d' % i for i in range(1, 21)]
    checks = []
    na = []
    for pid in all_ids:
        if pid in NA:
            na.append({'property_id': pid, 'reason': NA[pid]})
            continue
        try:
            mod = props.load(pid)
        except ImportError:
            na.append({'property_id': pid, 'reason': 'check not built yet in this session (claimed in DESIGN.md; not applicable is NOT asserted)'})
            continue
        if getattr(mod, 'UNCLAIMED', None):
            na.append({'property_id': pid, 'reason': mod.UNCLAIMED})
            continue
        checks.append({
            'property_id': pid,
            'quick_cmd': './check %s --tier quick' % pid,
            'thorough_cmd': './check %s --tier thorough' % pid,
            'evidence_file': '/verif/evidence/%s.json' % pid,
            'replay_cmd_template': './check %s --replay {path}' % pid,
            'engine': 'sim',
            'level_claimed': {'category': 'exploration', 'text': LEVEL_TEXT + ' ' + getattr(mod, 'LEVEL_EXTRA', ''),
                              'design_ref': 'DESIGN.md section 7, %s' % pid},
            'level_note': NOTE,
            'technique': 'deterministic simulation with fault injection (' + getattr(mod, 'TECH', 'seeded schedule/fault search, history check') + ')',
        })
    man = {
        'version': 1,
        'setup_cmd': './check selftest setup',
        'hooks': {
            'guard': 'PROXY_PY_VERIF',
            'enable': 'no source hooks are needed: every seam is a standard-library name (socket, selectors, time, '
                      'threading, multiprocessing, asyncio policy, uuid, os.getpid/os.close, random.choice) replaced '
                      'inside simulation worker processes before proxy is imported; the guard name is reserved and unused',
            'baseline_off_cmd': 'cd /repo && /venv/bin/python -m pytest -ra -q -p no:cacheprovider --timeout=900 --continue-on-collection-errors',
            'source_commits': [],
            'add_only': True,
        },
        'engines': [{'name': 'sim', 'path': '/verif/sim', 'serves_properties': [c['property_id'] for c in checks],
                     'kind_free_text': 'deterministic discrete-event simulator hosting the real proxy.py code; seeded scheduler, fault injection, tape replay and minimisation'}],
        'checks': checks,
        'not_applicable': na,
        'notes': 'Exit codes: 0 held (KNOWN-FINDING lines for recorded defects), 1 VIOLATION, 3 harness error. '
                 'VERIF_SEED selects the base seed, VERIF_BUDGET_S the wall budget, VERIF_WORKERS the process count. '
                 'Fix commits in /repo are listed in known_findings.json.',
    }
    with open(os.path.join(HERE, 'MANIFEST.json'), 'w') as f:
        json.dump(man, f, indent=1)
    print('claimed', [c['property_id'] for c in checks])
    print('not claimed', [n['property_id'] for n in na])


if __name__ == '__main__':
    main()
